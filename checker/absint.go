package main

import (
	"fmt"
	"go/ast"
	"go/constant"
	"go/token"
	"go/types"
	"sort"
	"strings"
)

// absint — a small abstract interpreter over the type-checked syntax tree, used by EOFLOOP.
//
// Regime: every primitive input source returns its end-of-input value (token EOF, rune eof,
// io.EOF error). Values are finite sets of atoms (constant values, nil / nonnil, true / false) or
// ⊤. Repository callees are evaluated by inlining with the abstract arguments (depth-bounded,
// memoised); anything not understood makes the value ⊤, or — for control flow — makes the
// analysis give up (the obligation becomes undecided). No gotree code is executed: this is a
// forward dataflow over the source.

type aval struct {
	top bool
	set map[string]bool
}

func aTop() aval { return aval{top: true} }
func aOf(atoms ...string) aval {
	m := map[string]bool{}
	for _, a := range atoms {
		m[a] = true
	}
	return aval{set: m}
}
func (a aval) join(b aval) aval {
	if a.top || b.top {
		return aTop()
	}
	m := map[string]bool{}
	for k := range a.set {
		m[k] = true
	}
	for k := range b.set {
		m[k] = true
	}
	return aval{set: m}
}
func (a aval) is(atom string) bool { return !a.top && len(a.set) == 1 && a.set[atom] }
func (a aval) may(atom string) bool {
	return a.top || a.set[atom]
}
func (a aval) String() string {
	if a.top {
		return "⊤"
	}
	return "{" + strings.Join(sortedKeys(a.set), ",") + "}"
}
func (a aval) eq(b aval) bool { return a.String() == b.String() }

const (
	bufEmpty = 1 // the parser's one-token push-back buffer is empty
	bufFull  = 2
)

// astate: abstract values of the local variables, plus two counters for the progress rule:
// mc = minimum number of input units (runes / lines) consumed since the start of the iteration
// (saturating at 2, a rune push-back takes one away), buf = may the parser's one-token push-back
// buffer be empty / full.
type astate struct {
	dead bool
	vars map[types.Object]aval
	mc   int8
	buf  uint8
}

func newState() *astate  { return &astate{vars: map[types.Object]aval{}, mc: 0, buf: bufEmpty} }
func deadState() *astate { return &astate{dead: true, vars: map[types.Object]aval{}} }
func (s *astate) consume(n int8) {
	s.mc += n
	if s.mc > 2 {
		s.mc = 2
	}
	if s.mc < 0 {
		s.mc = 0
	}
}
func (s *astate) clone() *astate {
	n := &astate{dead: s.dead, vars: map[types.Object]aval{}, mc: s.mc, buf: s.buf}
	for k, v := range s.vars {
		n.vars[k] = v
	}
	return n
}
func (s *astate) get(o types.Object) aval {
	if v, ok := s.vars[o]; ok {
		return v
	}
	return aTop()
}
func joinStates(a, b *astate) *astate {
	if a == nil || a.dead {
		if b == nil {
			return deadState()
		}
		return b.clone()
	}
	if b == nil || b.dead {
		return a.clone()
	}
	n := &astate{vars: map[types.Object]aval{}, mc: a.mc, buf: a.buf | b.buf}
	if b.mc < n.mc {
		n.mc = b.mc
	}
	for k, v := range a.vars {
		if w, ok := b.vars[k]; ok {
			j := v.join(w)
			if !j.top {
				n.vars[k] = j
			}
		}
	}
	return n
}
func (s *astate) key() string {
	if s.dead {
		return "dead"
	}
	var ks []string
	for o, v := range s.vars {
		if !v.top {
			ks = append(ks, fmt.Sprintf("%s@%d=%s", o.Name(), o.Pos(), v))
		}
	}
	sort.Strings(ks)
	return fmt.Sprintf("mc%d,b%d|%s", s.mc, s.buf, strings.Join(ks, ";"))
}

type outcome struct {
	normal    *astate
	breaks    *astate
	continues *astate
	returns   *astate
	results   []aval // joined results of all returns
}

type absInt struct {
	c       *Ctx
	eof     bool            // regime: every primitive source returns its end-of-input value (otherwise: unknown values)
	scope   map[string]bool // package paths whose callees must be understood (reader packages)
	depth   int
	gaveUp  string
	memo    map[string]*callSummary
	busy    map[*types.Func]bool
	sources map[string]bool // names of primitive sources seen (evidence)
	globals map[types.Object]*aval
	fresh   map[types.Object]bool // objects declared inside the loop under analysis (a stream created per iteration is not the loop's input)
	// onReturn, when set, is told every return statement reached in a live state (and the depth of
	// inlined calls at which it sits: 0 = the function execList was started on)
	onReturn func(ret *ast.ReturnStmt, depth int)
}

type callSummary struct {
	results []aval
	mc      int8  // minimum input consumed on any returning path (started at 0, buffer empty)
	buf     uint8 // push-back buffer on return
	noret   bool
}

func (c *Ctx) newAbsInt() *absInt {
	return &absInt{c: c, memo: map[string]*callSummary{}, busy: map[*types.Func]bool{}, sources: map[string]bool{}}
}

func (ai *absInt) giveUp(f string, a ...interface{}) {
	if ai.gaveUp == "" {
		ai.gaveUp = fmt.Sprintf(f, a...)
	}
}

func constAtom(v constant.Value) string {
	switch v.Kind() {
	case constant.Bool:
		if constant.BoolVal(v) {
			return "true"
		}
		return "false"
	case constant.String:
		return "s:" + constant.StringVal(v)
	}
	return v.ExactString()
}

// zero value atom of a type
func zeroAtom(t types.Type) aval {
	switch u := t.Underlying().(type) {
	case *types.Basic:
		switch {
		case u.Info()&types.IsBoolean != 0:
			return aOf("false")
		case u.Info()&types.IsString != 0:
			return aOf("s:")
		case u.Info()&types.IsNumeric != 0:
			return aOf("0")
		}
	case *types.Interface, *types.Pointer, *types.Slice, *types.Map, *types.Chan, *types.Signature:
		return aOf("nil")
	}
	return aTop()
}

// primitive input sources: results under the end-of-input regime
func (ai *absInt) primitive(fn *types.Func) ([]aval, bool) {
	if fn == nil || fn.Pkg() == nil {
		return nil, false
	}
	full := fn.FullName()
	var rs []aval
	switch full {
	case "(*bufio.Reader).ReadRune":
		rs = []aval{aTop(), aTop(), aOf("nonnil")}
	case "(*bufio.Reader).ReadLine":
		rs = []aval{aTop(), aOf("false"), aOf("nonnil")}
	case "(*bufio.Reader).ReadString", "(*bufio.Reader).ReadBytes":
		rs = []aval{aTop(), aOf("nonnil")}
	default:
		return nil, false
	}
	ai.sources[full] = true
	if !ai.eof {
		for i := range rs {
			rs[i] = aTop()
		}
	}
	return rs, true
}

func isPushBack(fn *types.Func) bool {
	if fn == nil {
		return false
	}
	switch fn.Name() {
	case "UnreadRune", "UnreadByte":
		return fn.Pkg() != nil && fn.Pkg().Path() == "bufio"
	}
	return false
}

// regimeFixed: conditions the end-of-input regime fixes: the parsers' one-token push-back buffer
// is empty (at most one buffered token per unscan call; unscan is a push-back for the progress rule).
func regimeFixed(key string) (val bool, ok bool) {
	k := strings.Trim(key, "()")
	for _, pat := range []string{"0 != ", " != 0"} {
		if (strings.HasPrefix(k, pat) || strings.HasSuffix(k, pat)) && strings.Contains(k, ".buf.n") && !strings.Contains(k, "&&") && !strings.Contains(k, "||") {
			return false, true
		}
	}
	for _, pat := range []string{"0 == ", " == 0"} {
		if (strings.HasPrefix(k, pat) || strings.HasSuffix(k, pat)) && strings.Contains(k, ".buf.n") && !strings.Contains(k, "&&") && !strings.Contains(k, "||") {
			return true, true
		}
	}
	return false, false
}

func (ai *absInt) evalExpr(info *types.Info, e ast.Expr, st *astate) aval {
	e = unparen(e)
	if tv, ok := info.Types[e]; ok && tv.Value != nil {
		return aOf(constAtom(tv.Value))
	}
	switch x := e.(type) {
	case *ast.Ident:
		if x.Name == "nil" && info.Uses[x] == types.Universe.Lookup("nil") {
			return aOf("nil")
		}
		if o := identObj(info, x); o != nil {
			if v, ok := ai.frozenGlobal(o); ok {
				return v
			}
			return st.get(o)
		}
	case *ast.UnaryExpr:
		switch x.Op {
		case token.NOT:
			t, f := ai.truth(info, x.X, st)
			return boolAval(f, t)
		case token.AND:
			return aOf("nonnil")
		}
	case *ast.BinaryExpr:
		switch x.Op {
		case token.EQL, token.NEQ, token.LAND, token.LOR:
			t, f := ai.truth(info, x, st)
			return boolAval(t, f)
		}
	case *ast.CallExpr:
		rs := ai.evalCall(info, x, st)
		if len(rs) == 1 {
			return rs[0]
		}
	case *ast.CompositeLit:
		return aOf("nonnil")
	}
	return aTop()
}

func boolAval(t, f bool) aval {
	switch {
	case t && f:
		return aOf("true", "false")
	case t:
		return aOf("true")
	case f:
		return aOf("false")
	}
	return aval{set: map[string]bool{}} // unreachable value
}

// truth: can the condition be true / false in st
func (ai *absInt) truth(info *types.Info, e ast.Expr, st *astate) (bool, bool) {
	e = unparen(e)
	st = st.clone() // pure: calls inside a condition are counted once, by condEffects
	if k, ok := regimeFixed(ai.c.canon(info, e, nil)); ok {
		return k, !k
	}
	if tv, ok := info.Types[e]; ok && tv.Value != nil && tv.Value.Kind() == constant.Bool {
		b := constant.BoolVal(tv.Value)
		return b, !b
	}
	switch x := e.(type) {
	case *ast.UnaryExpr:
		if x.Op == token.NOT {
			t, f := ai.truth(info, x.X, st)
			return f, t
		}
	case *ast.BinaryExpr:
		switch x.Op {
		case token.LAND:
			lt, lf := ai.truth(info, x.X, st)
			if !lt {
				return false, true
			}
			rt, rf := ai.truth(info, x.Y, ai.refine(info, x.X, st, true))
			return lt && rt, lf || rf
		case token.LOR:
			lt, lf := ai.truth(info, x.X, st)
			if !lf {
				return true, false
			}
			rt, rf := ai.truth(info, x.Y, ai.refine(info, x.X, st, false))
			return lt || rt, lf && rf
		case token.EQL, token.NEQ:
			l, r := ai.evalExpr(info, x.X, st), ai.evalExpr(info, x.Y, st)
			eqT, eqF := true, true
			if !l.top && !r.top {
				// nonnil vs nil handling: atoms compare by name; "nonnil" never equals "nil"
				inter := false
				for k := range l.set {
					if r.set[k] && k != "nonnil" {
						inter = true
					}
					if k == "nonnil" && r.set["nonnil"] {
						inter = true // two non-nil values may or may not be equal
					}
				}
				eqT = inter
				eqF = !(len(l.set) == 1 && len(r.set) == 1 && inter && !l.set["nonnil"])
			}
			if x.Op == token.NEQ {
				return eqF, eqT
			}
			return eqT, eqF
		}
	case *ast.Ident, *ast.CallExpr:
		v := ai.evalExpr(info, e, st)
		if !v.top {
			return v.set["true"], v.set["false"]
		}
	}
	return true, true
}

// refine: the state knowing that cond is `want`
func (ai *absInt) refine(info *types.Info, e ast.Expr, st *astate, want bool) *astate {
	e = unparen(e)
	t, f := ai.truth(info, e, st)
	if (want && !t) || (!want && !f) {
		return deadState()
	}
	n := st.clone()
	switch x := e.(type) {
	case *ast.UnaryExpr:
		if x.Op == token.NOT {
			return ai.refine(info, x.X, st, !want)
		}
	case *ast.Ident:
		if o := identObj(info, x); o != nil {
			if _, isVar := o.(*types.Var); isVar {
				n.vars[o] = aOf(map[bool]string{true: "true", false: "false"}[want])
			}
		}
	case *ast.BinaryExpr:
		switch x.Op {
		case token.LAND:
			if want {
				return ai.refine(info, x.Y, ai.refine(info, x.X, st, true), true)
			}
			// !(a && b): join of (!a) and (a && !b)
			return joinStates(ai.refine(info, x.X, st, false), ai.refine(info, x.Y, ai.refine(info, x.X, st, true), false))
		case token.LOR:
			if !want {
				return ai.refine(info, x.Y, ai.refine(info, x.X, st, false), false)
			}
			return joinStates(ai.refine(info, x.X, st, true), ai.refine(info, x.Y, ai.refine(info, x.X, st, false), true))
		case token.EQL, token.NEQ:
			isEq := (x.Op == token.EQL) == want
			vx, cx := x.X, x.Y
			if identObj(info, vx) == nil || isConstExpr(info, vx) {
				vx, cx = cx, vx
			}
			o := identObj(info, vx)
			if o == nil {
				return n
			}
			if _, isVar := o.(*types.Var); !isVar {
				return n
			}
			cv := ai.evalExpr(info, cx, st)
			if cv.top || len(cv.set) != 1 {
				return n
			}
			var atom string
			for k := range cv.set {
				atom = k
			}
			cur := st.get(o)
			if isEq {
				if atom == "nonnil" {
					return n
				}
				n.vars[o] = aOf(atom)
			} else {
				if atom == "nil" {
					n.vars[o] = aOf("nonnil")
				} else if !cur.top {
					m := map[string]bool{}
					for k := range cur.set {
						if k != atom {
							m[k] = true
						}
					}
					n.vars[o] = aval{set: m}
				}
			}
		}
	}
	return n
}

func isConstExpr(info *types.Info, e ast.Expr) bool {
	tv, ok := info.Types[unparen(e)]
	return ok && tv.Value != nil
}

// tokenPushBack: a repository method that sets the parser's push-back buffer (`X.buf.n = 1`).
func (ai *absInt) tokenPushBack(fi *FuncInfo) bool {
	for _, st := range ai.c.fieldStores(fi.Pkg.TypesInfo, fi.Decl.Body, nil) {
		if st.field.Name() == "n" && strings.HasSuffix(st.recv, ".buf") && st.rhs != nil {
			if tv, ok := fi.Pkg.TypesInfo.Types[st.rhs]; ok && tv.Value != nil && constKey(tv.Value) != "0" {
				return true
			}
		}
	}
	return false
}

// bufferedSource: a repository method that first serves the push-back buffer (`if X.buf.n != 0 {...return}`).
func (ai *absInt) bufferedSource(fi *FuncInfo) bool {
	found := false
	ast.Inspect(fi.Decl.Body, func(n ast.Node) bool {
		if is, ok := n.(*ast.IfStmt); ok {
			if _, fixed := regimeFixed(ai.c.canon(fi.Pkg.TypesInfo, is.Cond, nil)); fixed {
				found = true
			}
		}
		return true
	})
	return found
}

// evalCall: abstract results of a call and its effect on the progress counters of st.
func (ai *absInt) evalCall(info *types.Info, call *ast.CallExpr, st *astate) []aval {
	if ai.depth == 0 && ai.callOnFresh(info, call) {
		// reads from a stream created inside this iteration do not advance the loop's own input
		mc, buf := st.mc, st.buf
		rs := ai.evalCall2(info, call, st)
		st.mc, st.buf = mc, buf
		return rs
	}
	return ai.evalCall2(info, call, st)
}

// callOnFresh: the receiver (method) or every pointer/interface argument (function) is rooted at
// an object declared inside the loop under analysis.
func (ai *absInt) callOnFresh(info *types.Info, call *ast.CallExpr) bool {
	if len(ai.fresh) == 0 {
		return false
	}
	root := func(e ast.Expr) types.Object {
		for {
			switch x := unparen(e).(type) {
			case *ast.SelectorExpr:
				e = x.X
				continue
			case *ast.CallExpr:
				if sel, ok := unparen(x.Fun).(*ast.SelectorExpr); ok {
					e = sel.X
					continue
				}
				return nil
			case *ast.UnaryExpr:
				e = x.X
				continue
			case *ast.Ident:
				return identObj(info, x)
			}
			return nil
		}
	}
	if sel, ok := unparen(call.Fun).(*ast.SelectorExpr); ok {
		if _, isMethod := info.Selections[sel]; isMethod {
			o := root(sel.X)
			return o != nil && ai.fresh[o]
		}
	}
	n, all := 0, true
	for _, a := range call.Args {
		switch info.TypeOf(a).Underlying().(type) {
		case *types.Pointer, *types.Interface:
			n++
			if o := root(a); o == nil || !ai.fresh[o] {
				all = false
			}
		}
	}
	return n > 0 && all
}

func (ai *absInt) evalCall2(info *types.Info, call *ast.CallExpr, st *astate) []aval {
	// conversions
	if tv, ok := info.Types[call.Fun]; ok && tv.IsType() && len(call.Args) == 1 {
		return []aval{ai.evalExpr(info, call.Args[0], st)}
	}
	fn := calleeOf(info, call)
	nres := 1
	if t, ok := info.TypeOf(call).(*types.Tuple); ok {
		nres = t.Len()
	}
	tops := func() []aval {
		out := make([]aval, nres)
		for i := range out {
			out[i] = aTop()
		}
		return out
	}
	// arguments may themselves contain calls (buf.WriteRune(s.read()))
	var args []aval
	for _, a := range call.Args {
		args = append(args, ai.evalExpr(info, a, st))
	}
	if fn == nil {
		if id, ok := call.Fun.(*ast.Ident); ok && id.Name == "panic" {
			st.dead = true
		}
		return tops()
	}
	if rs, ok := ai.primitive(fn); ok {
		st.consume(1)
		return rs
	}
	if isPushBack(fn) {
		st.consume(-1)
		return tops()
	}
	if fn.Pkg() != nil {
		switch fn.Pkg().Path() + "." + fn.Name() {
		case "fmt.Errorf", "errors.New":
			return []aval{aOf("nonnil")}
		case "os.Exit":
			st.dead = true
			return tops()
		}
	}
	if !inRepo(fn) {
		return tops()
	}
	fi := ai.c.FuncOfObj(fn)
	if fi == nil {
		return tops()
	}
	inScope := ai.scope[fn.Pkg().Path()]
	if ai.tokenPushBack(fi) {
		st.buf = bufFull
		st.mc = 0
		return tops()
	}
	if ai.depth >= 10 || ai.busy[fn] {
		if inScope {
			ai.giveUp("call of %s too deep / recursive", fn.Name())
		}
		return tops()
	}
	buffered := ai.bufferedSource(fi)
	if buffered && st.buf&bufFull != 0 {
		// the buffered token (unknown) is served without consuming input
		full := st.buf == bufFull
		st.buf = bufEmpty
		if full {
			return tops()
		}
		// may be either: minimum consumption is that of the buffered path (0), values unknown
		return tops()
	}
	sum := ai.summary(fi, args)
	if sum == nil {
		if inScope {
			ai.giveUp("callee %s not understood", fn.Name())
		}
		return tops()
	}
	if sum.noret {
		st.dead = true
		return tops()
	}
	if sum.buf&bufFull != 0 {
		st.buf |= sum.buf
		if sum.buf == bufFull {
			st.buf = bufFull
		}
		st.mc = 0
	} else {
		st.consume(sum.mc)
	}
	if len(sum.results) == nres {
		return sum.results
	}
	return tops()
}

// summary: abstract results and progress effect of calling fi with the given abstract arguments
// (started with nothing consumed and an empty push-back buffer).
func (ai *absInt) summary(fi *FuncInfo, args []aval) *callSummary {
	var ks []string
	for _, a := range args {
		ks = append(ks, a.String())
	}
	key := fmt.Sprintf("%v|%s(%s)", ai.eof, funcName(fi.Obj), strings.Join(ks, ","))
	if s, ok := ai.memo[key]; ok {
		return s
	}
	info := fi.Pkg.TypesInfo
	st := newState()
	for i := range args {
		if p := paramObj(info, fi.Decl, i); p != nil && !args[i].top {
			st.vars[p] = args[i]
		}
	}
	// named results start at their zero value
	if fi.Decl.Type.Results != nil {
		for _, f := range fi.Decl.Type.Results.List {
			for _, n := range f.Names {
				if o := info.Defs[n]; o != nil {
					st.vars[o] = zeroAtom(o.Type())
				}
			}
		}
	}
	ai.busy[fi.Obj] = true
	ai.depth++
	saved := ai.gaveUp
	ai.gaveUp = ""
	out := ai.execList(info, fi, fi.Decl.Body.List, st)
	inner := ai.gaveUp
	ai.gaveUp = saved
	ai.depth--
	delete(ai.busy, fi.Obj)
	if inner != "" {
		ai.memo[key] = nil
		return nil
	}
	ret := out.returns
	results := out.results
	// falling off the end = return of the named results
	if out.normal != nil && !out.normal.dead {
		ret = joinStates(ret, out.normal)
		results = joinResults(results, ai.namedResults(info, fi, out.normal))
	}
	s := &callSummary{results: results}
	if ret == nil || ret.dead {
		s.noret = true
	} else {
		s.mc = ret.mc
		s.buf = ret.buf
	}
	ai.memo[key] = s
	return s
}

func (ai *absInt) namedResults(info *types.Info, fi *FuncInfo, st *astate) []aval {
	var out []aval
	if fi.Decl.Type.Results == nil {
		return nil
	}
	for _, f := range fi.Decl.Type.Results.List {
		if len(f.Names) == 0 {
			out = append(out, aTop())
			continue
		}
		for _, n := range f.Names {
			out = append(out, st.get(info.Defs[n]))
		}
	}
	return out
}

func joinResults(a, b []aval) []aval {
	if a == nil {
		return b
	}
	if b == nil {
		return a
	}
	if len(a) != len(b) {
		return nil
	}
	out := make([]aval, len(a))
	for i := range a {
		out[i] = a[i].join(b[i])
	}
	return out
}

func (o *outcome) merge(p *outcome) {
	o.breaks = joinStates(o.breaks, p.breaks)
	o.continues = joinStates(o.continues, p.continues)
	if p.returns != nil && !p.returns.dead {
		o.returns = joinStates(o.returns, p.returns)
		o.results = joinResults(o.results, p.results)
	}
}

func (ai *absInt) execList(info *types.Info, fi *FuncInfo, list []ast.Stmt, st *astate) *outcome {
	out := &outcome{}
	cur := st.clone()
	for _, s := range list {
		if cur.dead || ai.gaveUp != "" {
			break
		}
		o := ai.exec(info, fi, s, cur)
		out.merge(o)
		cur = o.normal
		if cur == nil {
			cur = deadState()
		}
	}
	out.normal = cur
	return out
}

func (ai *absInt) assign(info *types.Info, lhs ast.Expr, v aval, st *astate) {
	if id, ok := unparen(lhs).(*ast.Ident); ok {
		if id.Name == "_" {
			return
		}
		if o := identObj(info, id); o != nil {
			if v.top {
				delete(st.vars, o)
			} else {
				st.vars[o] = v
			}
		}
	}
	// stores through fields / indexes are not tracked
}

func (ai *absInt) exec(info *types.Info, fi *FuncInfo, s ast.Stmt, st *astate) *outcome {
	out := &outcome{}
	switch x := s.(type) {
	case *ast.BlockStmt:
		return ai.execList(info, fi, x.List, st)
	case *ast.EmptyStmt:
		out.normal = st
	case *ast.ExprStmt:
		n := st.clone()
		if call, ok := x.X.(*ast.CallExpr); ok {
			ai.evalCall(info, call, n)
		}
		out.normal = n
	case *ast.DeclStmt:
		n := st.clone()
		if gd, ok := x.Decl.(*ast.GenDecl); ok {
			for _, sp := range gd.Specs {
				vs, ok := sp.(*ast.ValueSpec)
				if !ok {
					continue
				}
				for i, nm := range vs.Names {
					o := info.Defs[nm]
					if o == nil {
						continue
					}
					if i < len(vs.Values) {
						ai.assign(info, nm, ai.evalExpr(info, vs.Values[i], n), n)
					} else if len(vs.Values) == 0 {
						ai.assign(info, nm, zeroAtom(o.Type()), n)
					}
				}
			}
		}
		out.normal = n
	case *ast.AssignStmt:
		n := st.clone()
		if len(x.Rhs) == 1 && len(x.Lhs) > 1 {
			var rs []aval
			if call, ok := unparen(x.Rhs[0]).(*ast.CallExpr); ok {
				rs = ai.evalCall(info, call, n)
			}
			// `v, found := table[k]` on a package-level map literal that nothing modifies, k a known constant
			if ix, ok := unparen(x.Rhs[0]).(*ast.IndexExpr); ok && len(x.Lhs) == 2 {
				if tbl, isTbl := ai.frozenTable(info, ix.X); isTbl {
					if k := ai.evalExpr(info, ix.Index, n); !k.top && len(k.set) == 1 {
						for atom := range k.set {
							if v, has := tbl[atom]; has {
								rs = []aval{v, aOf("true")}
							} else {
								rs = []aval{aTop(), aOf("false")}
							}
						}
					}
				}
			}
			for i, l := range x.Lhs {
				v := aTop()
				if i < len(rs) {
					v = rs[i]
				}
				ai.assign(info, l, v, n)
			}
		} else if len(x.Lhs) == len(x.Rhs) {
			vals := make([]aval, len(x.Rhs))
			for i, r := range x.Rhs {
				if x.Tok == token.ASSIGN || x.Tok == token.DEFINE {
					vals[i] = ai.evalExpr(info, r, n)
				} else {
					ai.evalExpr(info, r, n)
					vals[i] = aTop()
				}
			}
			for i, l := range x.Lhs {
				ai.assign(info, l, vals[i], n)
			}
		}
		out.normal = n
	case *ast.IncDecStmt:
		n := st.clone()
		ai.assign(info, x.X, aTop(), n)
		out.normal = n
	case *ast.ReturnStmt:
		n := st.clone()
		var rs []aval
		if len(x.Results) == 0 {
			rs = ai.namedResults(info, fi, n)
		} else if len(x.Results) == 1 {
			if call, ok := unparen(x.Results[0]).(*ast.CallExpr); ok {
				rs = ai.evalCall(info, call, n)
			} else {
				rs = []aval{ai.evalExpr(info, x.Results[0], n)}
			}
		} else {
			for _, r := range x.Results {
				rs = append(rs, ai.evalExpr(info, r, n))
			}
		}
		if !n.dead {
			out.returns = n
			out.results = rs
			if ai.onReturn != nil {
				ai.onReturn(x, ai.depth)
			}
		}
		out.normal = deadState()
	case *ast.BranchStmt:
		if x.Label != nil {
			ai.giveUp("labelled %s", x.Tok)
			out.normal = deadState()
			return out
		}
		switch x.Tok {
		case token.BREAK:
			out.breaks = st.clone()
		case token.CONTINUE:
			out.continues = st.clone()
		default:
			ai.giveUp("%s statement", x.Tok)
		}
		out.normal = deadState()
	case *ast.IfStmt:
		cur := st.clone()
		if x.Init != nil {
			o := ai.exec(info, fi, x.Init, cur)
			out.merge(o)
			cur = o.normal
		}
		// evaluating the condition may call sources
		ai.condEffects(info, x.Cond, cur)
		tS, fS := ai.refine(info, x.Cond, cur, true), ai.refine(info, x.Cond, cur, false)
		var after *astate
		if !tS.dead {
			o := ai.execList(info, fi, x.Body.List, tS)
			out.merge(o)
			after = joinStates(after, o.normal)
		}
		if !fS.dead {
			if x.Else != nil {
				o := ai.exec(info, fi, x.Else, fS)
				out.merge(o)
				after = joinStates(after, o.normal)
			} else {
				after = joinStates(after, fS)
			}
		}
		if after == nil {
			after = deadState()
		}
		out.normal = after
	case *ast.SwitchStmt:
		cur := st.clone()
		if x.Init != nil {
			o := ai.exec(info, fi, x.Init, cur)
			out.merge(o)
			cur = o.normal
		}
		var after *astate
		rest := cur.clone() // state in which no earlier case matched
		hasDefault := false
		var defaultBody []ast.Stmt
		for _, cs := range x.Body.List {
			cc := cs.(*ast.CaseClause)
			if cc.List == nil {
				hasDefault = true
				defaultBody = cc.Body
				continue
			}
			var enter *astate
			for _, v := range cc.List {
				var cond ast.Expr
				if x.Tag != nil {
					cond = &ast.BinaryExpr{X: x.Tag, Op: token.EQL, Y: v}
				} else {
					cond = v
				}
				enter = joinStates(enter, ai.refineSynth(info, cond, rest, true))
				rest = ai.refineSynth(info, cond, rest, false)
			}
			if enter != nil && !enter.dead {
				o := ai.execList(info, fi, cc.Body, enter)
				if hasFallthrough(cc.Body) {
					ai.giveUp("fallthrough")
				}
				// break inside a switch leaves the switch
				after = joinStates(after, o.breaks)
				o.breaks = nil
				out.merge(o)
				after = joinStates(after, o.normal)
			}
		}
		if !rest.dead {
			if hasDefault {
				o := ai.execList(info, fi, defaultBody, rest)
				after = joinStates(after, o.breaks)
				o.breaks = nil
				out.merge(o)
				after = joinStates(after, o.normal)
			} else {
				after = joinStates(after, rest)
			}
		}
		if after == nil {
			after = deadState()
		}
		out.normal = after
	case *ast.ForStmt:
		cur := st.clone()
		if x.Init != nil {
			o := ai.exec(info, fi, x.Init, cur)
			cur = o.normal
		}
		exit, rets := ai.loopLFP(info, fi, x, cur)
		out.merge(rets)
		out.normal = exit
	case *ast.RangeStmt:
		cur := st.clone()
		// zero or more iterations: least fixpoint with the iteration variables unknown
		head := cur.clone()
		var exit *astate = cur.clone()
		for iter := 0; iter < 12; iter++ {
			h := head.clone()
			for _, kv := range []ast.Expr{x.Key, x.Value} {
				if kv != nil {
					ai.assign(info, kv, aTop(), h)
				}
			}
			o := ai.execList(info, fi, x.Body.List, h)
			rets := &outcome{returns: o.returns, results: o.results}
			out.merge(rets)
			back := joinStates(o.normal, o.continues)
			exit = joinStates(exit, joinStates(back, o.breaks))
			nh := joinStates(head, back)
			if nh.key() == head.key() {
				break
			}
			head = nh
		}
		out.normal = exit
	case *ast.DeferStmt, *ast.GoStmt:
		out.normal = st
	case *ast.SendStmt:
		out.normal = st
	case *ast.LabeledStmt:
		ai.giveUp("labelled statement")
		out.normal = deadState()
	default:
		ai.giveUp("statement %T", s)
		out.normal = deadState()
	}
	if out.normal == nil {
		out.normal = deadState()
	}
	return out
}

func hasFallthrough(body []ast.Stmt) bool {
	if len(body) == 0 {
		return false
	}
	br, ok := body[len(body)-1].(*ast.BranchStmt)
	return ok && br.Tok == token.FALLTHROUGH
}

// refineSynth: refine on a synthesised `tag == value` expression (no type info for the node itself)
func (ai *absInt) refineSynth(info *types.Info, cond ast.Expr, st *astate, want bool) *astate {
	be, ok := cond.(*ast.BinaryExpr)
	if !ok || be.Pos() != token.NoPos {
		return ai.refine(info, cond, st, want)
	}
	l, r := ai.evalExpr(info, be.X, st), ai.evalExpr(info, be.Y, st)
	n := st.clone()
	o := identObj(info, be.X)
	if r.top || len(r.set) != 1 {
		return n
	}
	var atom string
	for k := range r.set {
		atom = k
	}
	if want {
		if !l.may(atom) {
			return deadState()
		}
		if o != nil {
			n.vars[o] = aOf(atom)
		}
		return n
	}
	if l.is(atom) {
		return deadState()
	}
	if o != nil && !l.top {
		m := map[string]bool{}
		for k := range l.set {
			if k != atom {
				m[k] = true
			}
		}
		n.vars[o] = aval{set: m}
	}
	return n
}

// condEffects: calls inside a condition act on the progress counters (evaluate them once)
func (ai *absInt) condEffects(info *types.Info, e ast.Expr, st *astate) {
	if e == nil {
		return
	}
	ast.Inspect(e, func(n ast.Node) bool {
		if call, ok := n.(*ast.CallExpr); ok {
			ai.evalCall(info, call, st)
			return false
		}
		return true
	})
}

// loopLFP: a loop met while executing a function: least fixpoint of the head state. Exit states
// are taken from the entry edge and from the back edges separately, so that "nothing consumed yet"
// stays correlated with the initial values of the loop variables.
func (ai *absInt) loopLFP(info *types.Info, fi *FuncInfo, x *ast.ForStmt, entry *astate) (*astate, *outcome) {
	rets := &outcome{}
	var exit *astate
	if x.Cond != nil {
		exit = joinStates(exit, ai.refine(info, x.Cond, entry, false))
	}
	head := entry.clone()
	for iter := 0; iter < 16; iter++ {
		in := head.clone()
		if x.Cond != nil {
			in = ai.refine(info, x.Cond, head, true)
		}
		if in.dead {
			break
		}
		o := ai.execList(info, fi, x.Body.List, in)
		rets.merge(&outcome{returns: o.returns, results: o.results})
		exit = joinStates(exit, o.breaks)
		back := joinStates(o.normal, o.continues)
		if x.Post != nil && back != nil && !back.dead {
			po := ai.exec(info, fi, x.Post, back)
			back = po.normal
		}
		if back != nil && !back.dead && x.Cond != nil {
			exit = joinStates(exit, ai.refine(info, x.Cond, back, false))
		}
		// the first iteration is peeled: what leaves the loop straight from the entry state has been
		// accounted for above, so the states at the head of the later iterations are the back-edge
		// states only (keeps `more == true` at entry correlated with "nothing read yet")
		var nh *astate
		if iter == 0 {
			if back == nil || back.dead {
				break
			}
			nh = back.clone()
		} else {
			nh = joinStates(head, back)
			if nh.key() == head.key() {
				break
			}
		}
		head = nh
	}
	if exit == nil {
		exit = deadState()
	}
	return exit, rets
}

// frozenGlobal: a package-level variable initialised with a constant and never assigned again
// (`var eof = rune(0)`) stands for that constant.
func (ai *absInt) frozenGlobal(o types.Object) (aval, bool) {
	v, ok := o.(*types.Var)
	if !ok || v.Pkg() == nil || v.Parent() != v.Pkg().Scope() || !inRepoObj(v) {
		return aval{}, false
	}
	if ai.globals == nil {
		ai.globals = map[types.Object]*aval{}
	}
	if r, ok := ai.globals[o]; ok {
		if r == nil {
			return aval{}, false
		}
		return *r, true
	}
	ai.globals[o] = nil
	for _, p := range ai.c.All {
		if p.Types != v.Pkg() {
			continue
		}
		var init ast.Expr
		assigned := false
		for _, f := range p.Syntax {
			ast.Inspect(f, func(n ast.Node) bool {
				switch x := n.(type) {
				case *ast.ValueSpec:
					for i, nm := range x.Names {
						if p.TypesInfo.Defs[nm] == o && i < len(x.Values) {
							init = x.Values[i]
						}
					}
				case *ast.AssignStmt:
					for _, l := range x.Lhs {
						if identObj(p.TypesInfo, l) == o {
							assigned = true
						}
					}
				case *ast.IncDecStmt:
					if identObj(p.TypesInfo, x.X) == o {
						assigned = true
					}
				case *ast.UnaryExpr:
					if x.Op == token.AND && identObj(p.TypesInfo, x.X) == o {
						assigned = true
					}
				}
				return true
			})
		}
		if init != nil && !assigned {
			if tv, ok := p.TypesInfo.Types[init]; ok && tv.Value != nil {
				a := aOf(constAtom(tv.Value))
				ai.globals[o] = &a
				return a, true
			}
		}
	}
	return aval{}, false
}

// frozenTable: e names a package-level map initialised by a composite literal with constant keys
// and never stored into afterwards; returns key atom -> abstract value of the element.
func (ai *absInt) frozenTable(info *types.Info, e ast.Expr) (map[string]aval, bool) {
	id, ok := unparen(e).(*ast.Ident)
	if !ok {
		return nil, false
	}
	o, isVar := info.Uses[id].(*types.Var)
	if !isVar || o.Pkg() == nil || o.Parent() != o.Pkg().Scope() || !inRepoObj(o) {
		return nil, false
	}
	for _, p := range ai.c.All {
		if p.Types != o.Pkg() {
			continue
		}
		var lit *ast.CompositeLit
		touched := false
		for _, f := range p.Syntax {
			ast.Inspect(f, func(n ast.Node) bool {
				switch x := n.(type) {
				case *ast.ValueSpec:
					for i, nm := range x.Names {
						if p.TypesInfo.Defs[nm] == o && i < len(x.Values) {
							lit, _ = unparen(x.Values[i]).(*ast.CompositeLit)
						}
					}
				case *ast.AssignStmt:
					for _, l := range x.Lhs {
						if b := baseIdent(l); b != nil && p.TypesInfo.Uses[b] == o {
							touched = true
						}
					}
				case *ast.UnaryExpr:
					if x.Op == token.AND {
						if b := baseIdent(x.X); b != nil && p.TypesInfo.Uses[b] == o {
							touched = true
						}
					}
				case *ast.CallExpr:
					if fid, isId := x.Fun.(*ast.Ident); isId && fid.Name == "delete" && len(x.Args) > 0 {
						if b := baseIdent(x.Args[0]); b != nil && p.TypesInfo.Uses[b] == o {
							touched = true
						}
					}
				}
				return true
			})
		}
		if lit == nil || touched {
			return nil, false
		}
		if _, isMap := p.TypesInfo.TypeOf(lit).Underlying().(*types.Map); !isMap {
			return nil, false
		}
		out := map[string]aval{}
		for _, el := range lit.Elts {
			kv, isKV := el.(*ast.KeyValueExpr)
			if !isKV {
				return nil, false
			}
			ktv, has := p.TypesInfo.Types[kv.Key]
			if !has || ktv.Value == nil {
				return nil, false
			}
			v := aTop()
			if vtv, hasV := p.TypesInfo.Types[kv.Value]; hasV && vtv.Value != nil {
				v = aOf(constAtom(vtv.Value))
			}
			out[constAtom(ktv.Value)] = v
		}
		return out, true
	}
	return nil, false
}
