package main

import (
	"encoding/json"
	"fmt"
	"go/ast"
	"go/token"
	"go/types"
	"os"
	"path/filepath"
	"sort"
	"strings"
	"time"

	"golang.org/x/tools/go/packages"
	"golang.org/x/tools/go/ssa"
	"golang.org/x/tools/go/ssa/ssautil"
)

const modPath = "github.com/evolbioinfo/gotree"

var (
	repoDir  = "/repo"
	verifDir = "/verif"
)

// Verdicts of one obligation.
const (
	vOK        = "ok"
	vViolation = "violation"
	vUndecided = "undecided"
	vNote      = "note"
)

// Obligation is one rule instance evaluated on the current tree.
type Obligation struct {
	Rule       string `json:"rule"`
	Key        string `json:"key"` // rule + function + canonical construct, never a line
	File       string `json:"file"`
	Line       int    `json:"line"`
	Verdict    string `json:"verdict"`
	Detail     string `json:"detail,omitempty"`
	Clause     string `json:"clause,omitempty"`
	Nontrivial bool   `json:"nontrivial"`
}

type floor struct {
	rule string
	min  int
}

// Ctx is the state of one check run.
type Ctx struct {
	Prop, Tier       string
	Level            string
	Fset             *token.FileSet
	All              []*packages.Package
	byPath           map[string]*packages.Package
	Obl              []*Obligation
	floors           []floor
	required         []string
	inCanonPredicate bool
	Explain          []string // what the rules decide / do not decide
	NotDecided       []string
	Assume           []string
	Trusted          []string
	Extra            map[string]interface{}
	start            time.Time
	overlay          map[string][]byte
	goarch           string

	// lazily built
	prog     *ssa.Program
	ssaPkgs  map[*packages.Package]*ssa.Package
	getters  map[*types.Func]*types.Var // trivial getter method -> field
	setters  map[*types.Func]*types.Var
	declOf   map[*types.Func]*ast.FuncDecl
	declPkg  map[*types.Func]*packages.Package
	fatalErr []string

	noAutoExpand  bool
	autoCache     map[*ast.FuncDecl]*canonOpts
	autoBusy      map[*ast.FuncDecl]bool
	mergeCache    map[interface{}]*canonOpts
	boolInitCache map[*ast.FuncDecl]map[types.Object]ast.Expr
	declSpans     []*ast.FuncDecl
}

func newCtx(prop, tier string) *Ctx {
	return &Ctx{Prop: prop, Tier: tier, Level: "other", byPath: map[string]*packages.Package{},
		Extra: map[string]interface{}{}, start: time.Now()}
}

func goEnv(goarch string) []string {
	env := []string{}
	for _, e := range os.Environ() {
		k := strings.SplitN(e, "=", 2)[0]
		switch k {
		case "GOFLAGS", "GOPROXY", "GOSUMDB", "GOTOOLCHAIN", "GOWORK", "GOARCH", "GOOS", "CGO_ENABLED":
			continue
		}
		env = append(env, e)
	}
	env = append(env, "GOFLAGS=-mod=mod", "GOPROXY=off", "GOSUMDB=off", "GOTOOLCHAIN=local", "GOWORK=off", "CGO_ENABLED=0")
	if goarch != "" {
		env = append(env, "GOARCH="+goarch)
	}
	return env
}

// load type-checks /repo/... from its current working tree.
func (c *Ctx) load() error {
	cfg := &packages.Config{
		Mode: packages.NeedName | packages.NeedFiles | packages.NeedCompiledGoFiles | packages.NeedImports |
			packages.NeedDeps | packages.NeedTypes | packages.NeedSyntax | packages.NeedTypesInfo | packages.NeedTypesSizes,
		Dir:     repoDir,
		Env:     goEnv(c.goarch),
		Tests:   false,
		Overlay: c.overlay,
	}
	pkgs, err := packages.Load(cfg, "./...")
	if err != nil {
		return fmt.Errorf("load: %v", err)
	}
	if len(pkgs) == 0 {
		return fmt.Errorf("load: zero packages")
	}
	nerr := 0
	for _, p := range pkgs {
		for _, e := range p.Errors {
			nerr++
			c.fatalErr = append(c.fatalErr, fmt.Sprintf("type/load error in %s: %v", p.PkgPath, e))
		}
		c.byPath[p.PkgPath] = p
		if c.Fset == nil {
			c.Fset = p.Fset
		}
	}
	sort.Slice(pkgs, func(i, j int) bool { return pkgs[i].PkgPath < pkgs[j].PkgPath })
	c.All = pkgs
	if nerr > 0 {
		return fmt.Errorf("load: %d errors; first: %s", nerr, c.fatalErr[0])
	}
	c.Extra["packages"] = len(pkgs)
	return nil
}

// Pkg returns a repository package by its path relative to the module ("tree", "io/newick", "" for main).
func (c *Ctx) Pkg(rel string) *packages.Package {
	p := modPath
	if rel != "" {
		p += "/" + rel
	}
	return c.byPath[p]
}

func (c *Ctx) buildSSA() {
	if c.prog != nil {
		return
	}
	prog, spkgs := ssautil.Packages(c.All, ssa.InstantiateGenerics)
	prog.Build()
	c.prog = prog
	c.ssaPkgs = map[*packages.Package]*ssa.Package{}
	for i, p := range c.All {
		c.ssaPkgs[p] = spkgs[i]
	}
}

func (c *Ctx) pos(p token.Pos) (string, int) {
	if !p.IsValid() || c.Fset == nil {
		return "", 0
	}
	ps := c.Fset.Position(p)
	f := ps.Filename
	if rel, err := filepath.Rel(repoDir, f); err == nil && !strings.HasPrefix(rel, "..") {
		f = rel
	}
	return f, ps.Line
}

func (c *Ctx) add(rule, key string, p token.Pos, verdict, detail string, nontrivial bool) *Obligation {
	f, l := c.pos(p)
	o := &Obligation{Rule: rule, Key: rule + "/" + key, File: f, Line: l, Verdict: verdict, Detail: detail, Nontrivial: nontrivial}
	c.Obl = append(c.Obl, o)
	return o
}

func (c *Ctx) OK(rule, key string, p token.Pos, detail string) *Obligation {
	return c.add(rule, key, p, vOK, detail, true)
}
func (c *Ctx) Trivial(rule, key string, p token.Pos, detail string) *Obligation {
	return c.add(rule, key, p, vOK, detail, false)
}
func (c *Ctx) Violation(rule, key string, p token.Pos, detail string) *Obligation {
	return c.add(rule, key, p, vViolation, detail, true)
}
func (c *Ctx) Undecided(rule, key string, p token.Pos, detail string) *Obligation {
	return c.add(rule, key, p, vUndecided, detail, true)
}
func (c *Ctx) Note(rule, key string, p token.Pos, detail string) *Obligation {
	return c.add(rule, key, p, vNote, detail, false)
}

// Check records ok or violation.
func (c *Ctx) Check(cond bool, rule, key string, p token.Pos, okDetail, badDetail string) *Obligation {
	if cond {
		return c.OK(rule, key, p, okDetail)
	}
	return c.Violation(rule, key, p, badDetail)
}

// Floor declares the minimum number of instances a rule must have found; fewer means the
// analysis went blind and the check fails.
func (c *Ctx) Floor(rule string, min int) { c.floors = append(c.floors, floor{rule, min}) }

// Require declares an obligation (by its full key "RULE/key") that the reference tree produces and
// that stands for something the property needs (a value that must be stored, a guard that must
// exist): when no obligation with that key is produced any more - the statement was deleted, or
// moved where the rule does not find it - the check fails as undecided instead of passing with one
// obligation fewer.
func (c *Ctx) Require(keys ...string) { c.required = append(c.required, keys...) }

func (c *Ctx) Decides(s string)       { c.Explain = append(c.Explain, s) }
func (c *Ctx) DoesNotDecide(s string) { c.NotDecided = append(c.NotDecided, s) }

// ---------------------------------------------------------------------------------------
// known findings

type KnownFinding struct {
	Property string `json:"property"`
	Rule     string `json:"rule"`
	Key      string `json:"key"`
	What     string `json:"what"`
	Status   string `json:"status"` // "known" or "fixed: property=<id> <commit> <what failed>"
}

type knownFile struct {
	Comment  string         `json:"comment"`
	Findings []KnownFinding `json:"findings"`
}

func loadKnown() ([]KnownFinding, error) {
	b, err := os.ReadFile(filepath.Join(verifDir, "known_findings.json"))
	if err != nil {
		if os.IsNotExist(err) {
			return nil, nil
		}
		return nil, err
	}
	var kf knownFile
	if err := json.Unmarshal(b, &kf); err != nil {
		return nil, err
	}
	return kf.Findings, nil
}

// ---------------------------------------------------------------------------------------
// finish: evidence + exit status

type evidence struct {
	PropertyID  string                 `json:"property_id"`
	Tier        string                 `json:"tier"`
	Seed        int                    `json:"seed"`
	Level       string                 `json:"level"`
	Coverage    map[string]interface{} `json:"coverage"`
	Assumptions []string               `json:"assumptions"`
	WallS       float64                `json:"wall_s"`
	Violations  int                    `json:"violations"`
}

func (c *Ctx) finish(runErr error) int {
	known, kerr := loadKnown()
	if kerr != nil {
		fmt.Printf("ERROR: known_findings.json unreadable: %v\n", kerr)
		runErr = kerr
	}
	// floors
	cnt := map[string]int{}
	for _, o := range c.Obl {
		cnt[o.Rule]++
	}
	for _, f := range c.floors {
		if cnt[f.rule] < f.min {
			c.Undecided("FLOOR", f.rule, token.NoPos, fmt.Sprintf("rule %s matched %d instances, fewer than the %d confirmed by hand: the analysis no longer sees its subject", f.rule, cnt[f.rule], f.min))
		}
	}
	c.referenceCounts()
	if len(c.required) > 0 {
		have := map[string]bool{}
		for _, o := range c.Obl {
			have[o.Key] = true
		}
		for _, k := range c.required {
			if !have[k] {
				rule := k
				if i := strings.Index(k, "/"); i > 0 {
					rule = k[:i]
				}
				c.Undecided("REQUIRED", k, token.NoPos, fmt.Sprintf("the obligation %s, produced on the reference tree, is no longer produced: what it stands for (rule %s) was deleted or moved where the rule does not find it", k, rule))
			}
		}
	}
	sort.SliceStable(c.Obl, func(i, j int) bool {
		a, b := c.Obl[i], c.Obl[j]
		if a.File != b.File {
			return a.File < b.File
		}
		if a.Line != b.Line {
			return a.Line < b.Line
		}
		return a.Key < b.Key
	})
	nviol, nund, nknown, nnote, nok := 0, 0, 0, 0, 0
	distinct := map[string]bool{}
	var lines []string
	writeFiles := c.overlay == nil // variant sub-runs leave /verif untouched
	if writeFiles {
		os.MkdirAll(filepath.Join(verifDir, "evidence", "violations"), 0o755)
		// remove stale replay files of this property
		if old, _ := filepath.Glob(filepath.Join(verifDir, "evidence", "violations", c.Prop+"-*.json")); old != nil {
			for _, f := range old {
				os.Remove(f)
			}
		}
	}
	var knownHits []string
	for _, o := range c.Obl {
		if o.Nontrivial {
			distinct[o.Key] = true
		}
		switch o.Verdict {
		case vOK:
			nok++
		case vNote:
			nnote++
			lines = append(lines, fmt.Sprintf("NOTE: %s:%d: [%s] %s", o.File, o.Line, o.Key, o.Detail))
		case vViolation, vUndecided:
			isKnown := false
			if o.Verdict == vViolation {
				for _, k := range known {
					if k.Property == c.Prop && k.Status == "known" && k.Key == o.Key {
						isKnown = true
						nknown++
						knownHits = append(knownHits, o.Key)
						lines = append(lines, fmt.Sprintf("%s:%d: [%s] %s", o.File, o.Line, o.Key, o.Detail))
						lines = append(lines, fmt.Sprintf("KNOWN-FINDING: property=%s %s", c.Prop, k.What))
						break
					}
				}
			}
			if isKnown {
				continue
			}
			tag := ""
			if o.Verdict == vUndecided {
				nund++
				tag = "undecided: "
			} else {
				nviol++
			}
			k := nviol + nund
			rp := filepath.Join(verifDir, "evidence", "violations", fmt.Sprintf("%s-%d.json", c.Prop, k))
			if writeFiles {
				b, _ := json.MarshalIndent(map[string]interface{}{"property": c.Prop, "tier": c.Tier, "obligation": o}, "", " ")
				os.WriteFile(rp, b, 0o644)
			}
			lines = append(lines, fmt.Sprintf("%s:%d: [%s] %s%s", o.File, o.Line, o.Key, tag, o.Detail))
			if o.Clause != "" {
				lines = append(lines, "    ("+c.Prop+": "+o.Clause+")")
			}
			lines = append(lines, fmt.Sprintf("VIOLATION property=%s replay=%s", c.Prop, rp))
		}
	}
	if runErr != nil {
		rp := filepath.Join(verifDir, "evidence", "violations", fmt.Sprintf("%s-0.json", c.Prop))
		if writeFiles {
			b, _ := json.MarshalIndent(map[string]interface{}{"property": c.Prop, "error": runErr.Error()}, "", " ")
			os.WriteFile(rp, b, 0o644)
		}
		lines = append(lines, "ERROR: "+runErr.Error())
		lines = append(lines, fmt.Sprintf("VIOLATION property=%s replay=%s", c.Prop, rp))
	}
	// samples
	var samples []interface{}
	seenRule := map[string]int{}
	for _, o := range c.Obl {
		if o.Verdict != vOK || len(samples) < 24 && seenRule[o.Rule] < 4 {
			if len(samples) < 60 {
				samples = append(samples, o)
			}
			seenRule[o.Rule]++
		}
	}
	ruleCounts := map[string]int{}
	for _, o := range c.Obl {
		ruleCounts[o.Rule]++
	}
	explanation := "Static analysis of /repo's current source (go/packages + go/types" + ssaNote(c) + "). Decides only the structural clauses listed; each is a necessary condition of the property. DECIDES: " + strings.Join(c.Explain, " | ")
	if len(c.NotDecided) > 0 {
		explanation += " || DOES NOT DECIDE: " + strings.Join(c.NotDecided, " | ")
	}
	total := len(c.Obl) - nnote
	cov := map[string]interface{}{
		"explanation":         explanation,
		"obligations":         total,
		"discharged":          nok,
		"evaluations":         len(c.Obl),
		"distinct_nontrivial": len(distinct),
		"rule":                "one obligation per rule instance found in the source (call site, loop, store, registration, guard ...), keyed rule/function/construct; non-trivial = the rule's deciding step was exercised (not a vacuous or purely informational instance); distinct = distinct keys",
		"samples":             samples,
		"checker_cmd":         fmt.Sprintf("bin/gtverif check -prop %s -tier %s", c.Prop, c.Tier),
		"trusted_base":        append([]string{"go/parser, go/types, go/ssa, go/cfg, go/packages (golang.org/x/tools v0.29.0)", "Go language semantics"}, c.Trusted...),
		"exhaustive":          true,
		"rule_instances":      ruleCounts,
		"notes":               nnote,
		"known_findings":      knownHits,
		"undecided":           nund,
	}
	for k, v := range c.Extra {
		cov[k] = v
	}
	ev := evidence{PropertyID: c.Prop, Tier: c.Tier, Seed: 0, Level: c.Level, Coverage: cov,
		Assumptions: append([]string{"the spec tables in checker/ transcribe the clauses of properties.jsonl they quote"}, c.Assume...),
		WallS:       time.Since(c.start).Seconds(), Violations: nviol + nund}
	if runErr != nil {
		ev.Violations++
	}
	if c.overlay == nil { // witness sub-runs never touch the evidence file
		b, _ := json.MarshalIndent(ev, "", " ")
		os.MkdirAll(filepath.Join(verifDir, "evidence"), 0o755)
		if err := os.WriteFile(filepath.Join(verifDir, "evidence", c.Prop+".json"), b, 0o644); err != nil {
			fmt.Println("ERROR: cannot write evidence:", err)
			return 1
		}
	}
	fmt.Printf("%s %s: %d packages, %d obligations (%d ok, %d violations, %d undecided, %d known findings, %d notes), %d distinct non-trivial, %.1fs\n",
		c.Prop, c.Tier, len(c.All), total, nok, nviol, nund, nknown, nnote, len(distinct), time.Since(c.start).Seconds())
	var rk []string
	for r, n := range ruleCounts {
		rk = append(rk, fmt.Sprintf("%s=%d", r, n))
	}
	sort.Strings(rk)
	fmt.Println("  rule instances:", strings.Join(rk, " "))
	if os.Getenv("GTVERIF_VERBOSE") != "" {
		for _, o := range c.Obl {
			fmt.Printf("  . %s:%d [%s] %s: %s\n", o.File, o.Line, o.Key, o.Verdict, o.Detail)
		}
	}
	for _, l := range lines {
		fmt.Println(l)
	}
	if nviol+nund > 0 || runErr != nil {
		return 1
	}
	return 0
}

func ssaNote(c *Ctx) string {
	if c.prog != nil {
		return " + go/ssa"
	}
	return ""
}

// ---------------------------------------------------------------------------------------
// function lookup

type FuncInfo struct {
	Pkg  *packages.Package
	Decl *ast.FuncDecl
	Obj  *types.Func
}

func (f *FuncInfo) Name() string {
	if f == nil || f.Obj == nil {
		return "<nil>"
	}
	return funcName(f.Obj)
}

func funcName(fn *types.Func) string {
	sig := fn.Type().(*types.Signature)
	pk := ""
	if fn.Pkg() != nil {
		pk = strings.TrimPrefix(strings.TrimPrefix(fn.Pkg().Path(), modPath), "/")
		if pk == "" {
			pk = "main"
		}
	}
	if r := sig.Recv(); r != nil {
		t := r.Type()
		if p, ok := t.(*types.Pointer); ok {
			t = p.Elem()
		}
		if n, ok := t.(*types.Named); ok {
			return pk + "." + n.Obj().Name() + "." + fn.Name()
		}
	}
	return pk + "." + fn.Name()
}

func (c *Ctx) indexDecls() {
	if c.declOf != nil {
		return
	}
	c.declOf = map[*types.Func]*ast.FuncDecl{}
	c.declPkg = map[*types.Func]*packages.Package{}
	for _, p := range c.All {
		for _, f := range p.Syntax {
			for _, d := range f.Decls {
				if fd, ok := d.(*ast.FuncDecl); ok {
					if obj, ok := p.TypesInfo.Defs[fd.Name].(*types.Func); ok {
						c.declOf[obj] = fd
						c.declPkg[obj] = p
					}
				}
			}
		}
	}
}

// Func finds pkg.(recv).name; recv=="" for a plain function. A missing anchor is an undecided
// obligation: the check must not pass because it stopped seeing its subject.
func (c *Ctx) Func(pkgRel, recv, name string) *FuncInfo {
	fi := c.FuncOpt(pkgRel, recv, name)
	if fi == nil {
		n := pkgRel + "." + name
		if recv != "" {
			n = pkgRel + "." + recv + "." + name
		}
		c.Undecided("ANCHOR", n, token.NoPos, "anchored function "+n+" not found in /repo (renamed or removed): the rules tied to it cannot be evaluated")
	}
	return fi
}

func (c *Ctx) FuncOpt(pkgRel, recv, name string) *FuncInfo {
	c.indexDecls()
	p := c.Pkg(pkgRel)
	if p == nil {
		return nil
	}
	for obj, fd := range c.declOf {
		if c.declPkg[obj] != p || obj.Name() != name {
			continue
		}
		r := ""
		if fd.Recv != nil && len(fd.Recv.List) > 0 {
			r = recvTypeName(fd.Recv.List[0].Type)
		}
		if r == recv && fd.Body != nil {
			return &FuncInfo{Pkg: p, Decl: fd, Obj: obj}
		}
	}
	// an unexported helper keeps its role when it is turned from a method into a plain function or
	// the reverse (its receiver was not used): the only function of that name in the package
	if name != "" && !ast.IsExported(name) {
		var only *FuncInfo
		n := 0
		for obj, fd := range c.declOf {
			if c.declPkg[obj] == p && obj.Name() == name && fd.Body != nil {
				only = &FuncInfo{Pkg: p, Decl: fd, Obj: obj}
				n++
			}
		}
		if n == 1 {
			return only
		}
	}
	return nil
}

func (c *Ctx) FuncOfObj(obj *types.Func) *FuncInfo {
	c.indexDecls()
	if obj == nil {
		return nil
	}
	if o := obj.Origin(); o != nil {
		obj = o
	}
	fd := c.declOf[obj]
	if fd == nil || fd.Body == nil {
		return nil
	}
	return &FuncInfo{Pkg: c.declPkg[obj], Decl: fd, Obj: obj}
}

func recvTypeName(e ast.Expr) string {
	switch t := e.(type) {
	case *ast.StarExpr:
		return recvTypeName(t.X)
	case *ast.Ident:
		return t.Name
	case *ast.IndexExpr:
		return recvTypeName(t.X)
	case *ast.ParenExpr:
		return recvTypeName(t.X)
	}
	return ""
}

// AllFuncs lists every function declaration of the given packages (all repo packages if none).
func (c *Ctx) AllFuncs(pkgRels ...string) []*FuncInfo {
	c.indexDecls()
	want := map[*packages.Package]bool{}
	for _, r := range pkgRels {
		if p := c.Pkg(r); p != nil {
			want[p] = true
		}
	}
	var out []*FuncInfo
	for obj, fd := range c.declOf {
		if len(pkgRels) > 0 && !want[c.declPkg[obj]] {
			continue
		}
		if fd.Body == nil {
			continue
		}
		out = append(out, &FuncInfo{Pkg: c.declPkg[obj], Decl: fd, Obj: obj})
	}
	sort.Slice(out, func(i, j int) bool { return out[i].Decl.Pos() < out[j].Decl.Pos() })
	return out
}

// SSAFunc returns the go/ssa function of a declaration.
func (c *Ctx) SSAFunc(fi *FuncInfo) *ssa.Function {
	c.buildSSA()
	if fi == nil {
		return nil
	}
	return c.prog.FuncValue(fi.Obj)
}

// ---------------------------------------------------------------------------------------
// positive-control fixture

var fixturePkgs []*packages.Package

// Fixture loads checker/testdata/fixture (stdlib-only module) through the same loader. Rules
// whose expected count on gotree is zero run on it too and must match there.
func (c *Ctx) Fixture() []*packages.Package {
	if fixturePkgs != nil {
		return fixturePkgs
	}
	cfg := &packages.Config{
		Mode: packages.NeedName | packages.NeedFiles | packages.NeedCompiledGoFiles | packages.NeedImports |
			packages.NeedDeps | packages.NeedTypes | packages.NeedSyntax | packages.NeedTypesInfo | packages.NeedTypesSizes,
		Dir:  filepath.Join(verifDir, "checker", "testdata", "fixture"),
		Env:  goEnv(""),
		Fset: c.Fset,
	}
	pkgs, err := packages.Load(cfg, "./...")
	if err != nil || len(pkgs) == 0 {
		c.Undecided("CONTROL", "fixture-load", token.NoPos, fmt.Sprintf("positive-control fixture could not be loaded: %v", err))
		return nil
	}
	for _, p := range pkgs {
		for _, e := range p.Errors {
			c.Undecided("CONTROL", "fixture-load", token.NoPos, "positive-control fixture has errors: "+e.Error())
			return nil
		}
	}
	fixturePkgs = pkgs
	return pkgs
}

// Control records the outcome of a positive control: the rule must have matched in the fixture.
func (c *Ctx) Control(rule string, matched bool, what string) {
	if matched {
		c.Trivial("CONTROL", rule, token.NoPos, "positive control matched: "+what)
	} else {
		c.Undecided("CONTROL", rule, token.NoPos, "positive control NOT matched ("+what+"): the rule no longer recognises the construct it looks for")
	}
}

// subCtx makes a throw-away context over other packages (positive controls on the fixture).
func (c *Ctx) subCtx(pkgs []*packages.Package) *Ctx {
	s := newCtx(c.Prop, "control")
	s.Fset = c.Fset
	s.All = pkgs
	for _, p := range pkgs {
		s.byPath[p.PkgPath] = p
	}
	return s
}

// PkgLevelClosures lists the function literals that sit in package-level variable initialisers
// (the Run/RunE/PersistentPreRun closures of the cobra commands) as pseudo declarations named
// "<variable>#<field>", so that rules written over FuncInfo see the code of the commands too.
func (c *Ctx) PkgLevelClosures(pkgRels ...string) []*FuncInfo {
	var out []*FuncInfo
	for _, p := range c.All {
		if len(pkgRels) > 0 {
			ok := false
			for _, r := range pkgRels {
				if c.Pkg(r) == p {
					ok = true
				}
			}
			if !ok {
				continue
			}
		}
		info := p.TypesInfo
		for _, f := range p.Syntax {
			for _, d := range f.Decls {
				gd, ok := d.(*ast.GenDecl)
				if !ok || gd.Tok != token.VAR {
					continue
				}
				for _, sp := range gd.Specs {
					vs, ok := sp.(*ast.ValueSpec)
					if !ok {
						continue
					}
					for i, val := range vs.Values {
						owner := "_"
						if i < len(vs.Names) {
							owner = vs.Names[i].Name
						}
						var visit func(n ast.Node, field string)
						visit = func(n ast.Node, field string) {
							ast.Inspect(n, func(m ast.Node) bool {
								switch x := m.(type) {
								case *ast.KeyValueExpr:
									if k, ok := x.Key.(*ast.Ident); ok {
										visit(x.Value, k.Name)
										return false
									}
								case *ast.FuncLit:
									sig, _ := info.TypeOf(x).(*types.Signature)
									if sig == nil {
										return false
									}
									name := owner + "#" + field
									obj := types.NewFunc(x.Pos(), p.Types, name, sig)
									out = append(out, &FuncInfo{Pkg: p, Decl: &ast.FuncDecl{Name: &ast.Ident{Name: name, NamePos: x.Pos()}, Type: x.Type, Body: x.Body}, Obj: obj})
									return false
								}
								return true
							})
						}
						visit(val, "init")
					}
				}
			}
		}
	}
	sort.Slice(out, func(i, j int) bool { return out[i].Decl.Pos() < out[j].Decl.Pos() })
	return out
}
