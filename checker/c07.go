package main

import (
	"fmt"
	"go/ast"
	"go/token"
	"go/types"
	"math/big"
	"strings"
)

func init() { props["C07"] = checkC07 }

// selectionGuard: in fn, every append of the range element to the slice that is later passed to
// RemoveEdges happens iff spec(elem).
func (c *Ctx) selectionGuard(fi *FuncInfo, spec func(elem string, depthVar string) *bexpr, clause string) {
	info := fi.Pkg.TypesInfo
	name := funcName(fi.Obj)
	// slice passed (variadic) to RemoveEdges
	var passed types.Object
	for _, call := range callsIn(fi.Decl.Body, false) {
		if fn := calleeOf(info, call); fn != nil && isRepoFunc(fn, "tree", "Tree", "RemoveEdges") && call.Ellipsis.IsValid() {
			passed = identObj(info, call.Args[len(call.Args)-1])
		}
	}
	if passed == nil {
		c.Undecided("GF", name+"/selection", fi.Decl.Pos(), "no `RemoveEdges(..., slice...)` call found")
		return
	}
	n := 0
	ast.Inspect(fi.Decl.Body, func(nd ast.Node) bool {
		as, ok := nd.(*ast.AssignStmt)
		if !ok || len(as.Lhs) != 1 || len(as.Rhs) != 1 || identObj(info, as.Lhs[0]) != passed {
			return true
		}
		call, ok := unparen(as.Rhs[0]).(*ast.CallExpr)
		if !ok {
			return true
		}
		id, ok := call.Fun.(*ast.Ident)
		if !ok || id.Name != "append" || len(call.Args) != 2 {
			return true
		}
		n++
		elem := c.canon(info, call.Args[1], nil)
		conds, okc := c.pathConds(info, fi.Decl.Body, as, true)
		key := fmt.Sprintf("%s/selection#%d", name, n)
		if !okc {
			c.Undecided("GF", key, as.Pos(), "guard shape not understood")
			return true
		}
		// depth variable: `d, err = e.TopoDepth()` ; error guards are dropped
		depthVar := ""
		var rel []cond
		for _, cd := range conds {
			if cd.Expr == nil {
				rel = append(rel, cd)
				continue
			}
			if is := errGuard(info, cd.Expr); is {
				continue
			}
			rel = append(rel, cd)
		}
		ast.Inspect(fi.Decl.Body, func(m ast.Node) bool {
			switch s := m.(type) {
			case *ast.AssignStmt:
				if len(s.Rhs) == 1 {
					if cl, ok := unparen(s.Rhs[0]).(*ast.CallExpr); ok {
						if fn := calleeOf(info, cl); fn != nil && isRepoFunc(fn, "tree", "Edge", "TopoDepth") {
							if sel, ok := unparen(cl.Fun).(*ast.SelectorExpr); ok && c.canon(info, sel.X, nil) == elem {
								if o := identObj(info, s.Lhs[0]); o != nil {
									depthVar = o.Name()
								}
							}
						}
					}
				}
			}
			return true
		})
		code := c.condsToBexpr(info, rel, nil)
		sp := spec(elem, depthVar)
		if sp == nil {
			c.Undecided("GF", key, as.Pos(), "cannot bind the terms of the documented criterion")
			return true
		}
		ok2, wit, vals, err := gfEquiv(code, sp)
		if err != nil {
			c.Undecided("GF", key, as.Pos(), err.Error())
		} else if ok2 {
			c.OK("GF", key, as.Pos(), fmt.Sprintf("selected iff %s (%d orderings)", sp.String(), vals))
		} else {
			c.Violation("GF", key, as.Pos(), "branch selected under "+code.String()+"; documented criterion is "+sp.String()+": "+wit).Clause = clause
		}
		return true
	})
	if n == 0 {
		// the slice comes from a filter helper given the criterion as a function: xs, _ := t.filter(func(e) (bool, error) {...})
		ast.Inspect(fi.Decl.Body, func(nd ast.Node) bool {
			as, ok := nd.(*ast.AssignStmt)
			if !ok || len(as.Rhs) != 1 || len(as.Lhs) == 0 || identObj(info, as.Lhs[0]) != passed {
				return true
			}
			call, ok := unparen(as.Rhs[0]).(*ast.CallExpr)
			if !ok || len(call.Args) != 1 {
				return true
			}
			lit, ok := unparen(call.Args[0]).(*ast.FuncLit)
			g := calleeOf(info, call)
			if !ok || g == nil || g.Exported() || !c.isFilterHelper(g) || lit.Type.Params == nil || len(lit.Type.Params.List) != 1 || len(lit.Type.Params.List[0].Names) != 1 {
				return true
			}
			n++
			key := fmt.Sprintf("%s/selection#%d", name, n)
			ep := info.Defs[lit.Type.Params.List[0].Names[0]]
			elem := ep.Name()
			depthVar := ""
			ast.Inspect(lit.Body, func(m ast.Node) bool {
				if s2, ok := m.(*ast.AssignStmt); ok && len(s2.Rhs) == 1 {
					if cl, ok := unparen(s2.Rhs[0]).(*ast.CallExpr); ok && isRepoFunc(calleeOf(info, cl), "tree", "Edge", "TopoDepth") {
						if o := identObj(info, s2.Lhs[0]); o != nil {
							depthVar = o.Name()
						}
					}
				}
				return true
			})
			// the condition under which the function returns true
			var alts []*bexpr
			okAll := true
			ast.Inspect(lit.Body, func(m ast.Node) bool {
				ret, ok := m.(*ast.ReturnStmt)
				if !ok || len(ret.Results) == 0 {
					return true
				}
				if tv, ok := info.Types[ret.Results[0]]; ok && tv.Value != nil && tv.Value.String() == "false" {
					return true
				}
				conds, okc := c.pathConds(info, lit.Body, ret, false)
				if !okc {
					okAll = false
					return true
				}
				var rel []cond
				for _, cd := range conds {
					if cd.Expr != nil && errGuard(info, cd.Expr) {
						continue
					}
					rel = append(rel, cd)
				}
				alts = append(alts, bAnd(c.condsToBexpr(info, rel, nil), c.toBexpr(info, ret.Results[0], nil)))
				return true
			})
			sp := spec(elem, depthVar)
			if !okAll || len(alts) == 0 || sp == nil {
				c.Undecided("GF", key, as.Pos(), "criterion function not understood")
				return true
			}
			code := bOr(alts...)
			ok2, wit, vals, err := gfEquiv(code, sp)
			if err != nil {
				c.Undecided("GF", key, as.Pos(), err.Error())
			} else if ok2 {
				c.OK("GF", key, as.Pos(), fmt.Sprintf("selected (through %s) iff %s (%d orderings)", g.Name(), sp.String(), vals))
			} else {
				c.Violation("GF", key, as.Pos(), "branch selected under "+code.String()+"; documented criterion is "+sp.String()+": "+wit).Clause = clause
			}
			return true
		})
	}
	if n == 0 {
		c.Undecided("GF", name+"/selection", fi.Decl.Pos(), "no append to the slice passed to RemoveEdges")
	}
}

// isFilterHelper: g(pred) ranges over the tree's branches (t.Edges()) and appends the range element to
// its result exactly when pred(element) returned true (error returns aside).
func (c *Ctx) isFilterHelper(g *types.Func) bool {
	gi := c.FuncOfObj(g)
	if gi == nil || gi.Decl.Body == nil {
		return false
	}
	info := gi.Pkg.TypesInfo
	pred := paramObj(info, gi.Decl, 0)
	if pred == nil {
		return false
	}
	if _, isFn := pred.Type().Underlying().(*types.Signature); !isFn {
		return false
	}
	ok := false
	ast.Inspect(gi.Decl.Body, func(m ast.Node) bool {
		rs, isRange := m.(*ast.RangeStmt)
		if !isRange || rs.Value == nil {
			return true
		}
		src := unparen(rs.X)
		if v := identObj(info, src); v != nil {
			k, def := 0, ast.Expr(nil)
			forAssignsTo(info, gi.Decl.Body, v, func(rhs ast.Expr, multi, incdec bool) {
				k++
				def = rhs
			})
			if k == 1 && def != nil {
				src = unparen(def)
			}
		}
		if call, isCall := src.(*ast.CallExpr); !isCall || !isRepoFunc(calleeOf(info, call), "tree", "Tree", "Edges") {
			return true
		}
		ev := identObj(info, rs.Value)
		// flag := pred(ev)
		var flag types.Object
		ast.Inspect(rs.Body, func(q ast.Node) bool {
			if as, isAs := q.(*ast.AssignStmt); isAs && len(as.Rhs) == 1 {
				if cl, isCl := unparen(as.Rhs[0]).(*ast.CallExpr); isCl && identObj(info, cl.Fun) == pred && len(cl.Args) == 1 && identObj(info, cl.Args[0]) == ev {
					flag = identObj(info, as.Lhs[0])
				}
			}
			return true
		})
		if flag == nil {
			return true
		}
		ast.Inspect(rs.Body, func(q ast.Node) bool {
			as, isAs := q.(*ast.AssignStmt)
			if !isAs || len(as.Rhs) != 1 {
				return true
			}
			cl, isCl := unparen(as.Rhs[0]).(*ast.CallExpr)
			if !isCl || len(cl.Args) != 2 || identObj(info, cl.Args[1]) != ev {
				return true
			}
			if id, isId := unparen(cl.Fun).(*ast.Ident); !isId || id.Name != "append" {
				return true
			}
			conds, okc := c.pathConds(info, rs.Body, as, false)
			if !okc {
				return true
			}
			var rel []cond
			for _, cd := range conds {
				if cd.Expr != nil && errGuard(info, cd.Expr) {
					continue
				}
				rel = append(rel, cd)
			}
			code := c.condsToBexpr(info, rel, nil)
			if eq, _, _, err := gfEquiv(code, bAtom(flag.Name())); err == nil && eq {
				ok = true
			}
			return true
		})
		return true
	})
	return ok
}

// errGuard: cond is `err != nil` / `err == nil` on an error value.
func errGuard(info *types.Info, e ast.Expr) bool {
	be, ok := unparen(e).(*ast.BinaryExpr)
	if !ok || (be.Op != token.NEQ && be.Op != token.EQL) {
		return false
	}
	return isErrorType(info.TypeOf(be.X)) || isErrorType(info.TypeOf(be.Y))
}

func checkC07(c *Ctx) {
	c.Decides("ARGSWAP: no call in package tree passes two same-typed identifiers named like the callee's parameters at each other's positions (removeRoot / removeTips); PATH: the collapse operations and Resolve have no successful return that skips their worker (RemoveEdges / resolveRecur)")
	c.argSwap("ARGSWAP", []string{"tree"}, "leaves all other splits with their lengths and supports and all names untouched")
	c.Floor("ARGSWAP", 3)
	for _, w := range [][2]string{{"CollapseShortBranches", "RemoveEdges"}, {"CollapseLowSupport", "RemoveEdges"}, {"CollapseTopoDepth", "RemoveEdges"}, {"Resolve", "resolveRecur"}} {
		if fi := c.Func("tree", "Tree", w[0]); fi != nil {
			c.noEarlySuccess("PATH", fi, w[1], nil, "removes exactly the inner branches that satisfy the documented criterion / yields a fully binary tree")
		}
	}
	c.Decides("GF: the three selection predicates are the documented relations, boundary included (length <= l; support present and < s; min <= depth <= max), applied to the very slice handed to RemoveEdges; the contraction in RemoveEdges is unreachable for a tip branch and is skipped exactly for root-adjacent branches unless removeRoot")
	c.Decides("LF: resolving a multifurcation gives every re-created branch the (length, support, p-value) of the branch it replaces and the connecting branch (0, NIL_SUPPORT, NIL_PVALUE); AddBipartition likewise transfers the three values; PAIR: the edits of RemoveEdges/resolveRecur/AddBipartition are two-sided")
	c.DoesNotDecide("that all other splits survive with their values, that the resolved tree is binary, distance preservation")
	tr := c.Pkg("tree")
	if tr == nil {
		return
	}
	if fi := c.Func("tree", "Tree", "CollapseShortBranches"); fi != nil {
		p0 := paramObj(fi.Pkg.TypesInfo, fi.Decl, 0)
		c.selectionGuard(fi, func(e, _ string) *bexpr { return bCmp(e+".length", token.LEQ, p0.Name()) }, "length <= l")
	}
	if fi := c.Func("tree", "Tree", "CollapseLowSupport"); fi != nil {
		p0 := paramObj(fi.Pkg.TypesInfo, fi.Decl, 0)
		c.selectionGuard(fi, func(e, _ string) *bexpr {
			return bAnd(bCmp(e+".support", token.NEQ, "NIL_SUPPORT"), bCmp(e+".support", token.LSS, p0.Name()))
		}, "support present and < s")
	}
	if fi := c.Func("tree", "Tree", "CollapseTopoDepth"); fi != nil {
		p0, p1 := paramObj(fi.Pkg.TypesInfo, fi.Decl, 0), paramObj(fi.Pkg.TypesInfo, fi.Decl, 1)
		c.selectionGuard(fi, func(e, d string) *bexpr {
			if d == "" {
				return nil
			}
			return bAnd(bCmp(p0.Name(), token.LEQ, d), bCmp(d, token.LEQ, p1.Name()))
		}, "min <= depth <= max")
	}
	// RemoveEdges
	if fi := c.Func("tree", "Tree", "RemoveEdges"); fi != nil {
		info := fi.Pkg.TypesInfo
		removeRoot := paramObj(info, fi.Decl, 0)
		var first *ast.CallExpr
		for _, call := range callsIn(fi.Decl.Body, false) {
			fn := calleeOf(info, call)
			if fn == nil || first != nil {
				continue
			}
			isDel := func(h *types.Func) bool { return isRepoFunc(h, "tree", "Node", "delNeighbor") }
			// the contraction itself, or the unexported helper it was moved into
			if isDel(fn) || (!fn.Exported() && fn.Pkg() == fi.Obj.Pkg() && fn != fi.Obj && c.reaches(fn, isDel, 2, map[*types.Func]bool{})) {
				first = call
			}
		}
		var rs *ast.RangeStmt
		ast.Inspect(fi.Decl.Body, func(n ast.Node) bool {
			if r, ok := n.(*ast.RangeStmt); ok && rs == nil {
				rs = r
			}
			return true
		})
		if first == nil || rs == nil || rs.Value == nil || removeRoot == nil {
			c.Undecided("GF", "tree.Tree.RemoveEdges/contraction", fi.Decl.Pos(), "no contraction (delNeighbor inside a range over the branches) found")
		} else {
			e := identObj(info, rs.Value).Name()
			conds, okc := c.pathConds(info, fi.Decl.Body, first, true)
			code := c.inlineTip(c.condsToBexpr(info, conds, nil))
			code = c.inlineNneigh(code)
			tip := bCmp("len("+e+".right.neigh)", token.EQL, "1")
			rootAdj := bOr(bCmp("len("+e+".right.neigh)", token.EQL, "2"), bCmp("len("+e+".left.neigh)", token.EQL, "2"))
			spec := bAnd(bNot(tip), bOr(bAtom(removeRoot.Name()), bNot(rootAdj)))
			if !okc {
				c.Undecided("GF", "tree.Tree.RemoveEdges/contraction", first.Pos(), "guard shape not understood")
			} else if ok2, wit, _, err := gfEquiv(code, spec); err != nil {
				c.Undecided("GF", "tree.Tree.RemoveEdges/contraction", first.Pos(), err.Error())
			} else if ok2 {
				c.OK("GF", "tree.Tree.RemoveEdges/contraction", first.Pos(), "contracted iff "+spec.String())
			} else {
				// which half failed?
				if ok3, w3, _, _ := gfImplies(code, bNot(tip)); !ok3 {
					c.Violation("GF", "tree.Tree.RemoveEdges/contraction", first.Pos(), "the contraction is reachable for a tip branch: "+w3).Clause = "never a tip"
				} else {
					c.Violation("GF", "tree.Tree.RemoveEdges/contraction", first.Pos(), "branch contracted under "+code.String()+"; property requires "+spec.String()+": "+wit).Clause = "skipping tips and root-adjacent branches"
				}
			}
		}
	}
	c.Decides("NEW-BRANCH-ZERO (go/cfg): the connecting branch resolveRecur creates gets the constant length 0 on every path after its creation")
	for _, h := range c.withHelpers(c.Func("tree", "Tree", "resolveRecur"), 2) {
		c.newBranchZero("NEW-BRANCH-ZERO", h, "only adds zero-length branches without support")
	}
	c.Floor("NEW-BRANCH-ZERO", 1)
	// resolveRecur / AddBipartition transfers
	if fi := c.Func("tree", "Tree", "resolveRecur"); fi != nil {
		c.transferForms(fi, "tree.Tree.resolveRecur", true)
	}
	if fi := c.Func("tree", "Tree", "AddBipartition"); fi != nil {
		c.transferForms(fi, "tree.Tree.AddBipartition", false)
	}
	c.checkPair("PAIR", map[string]bool{"RemoveEdges": true, "resolveRecur": true, "AddBipartition": true})
	c.Decides("RESOLVE-GUARD: resolveRecur creates a node per round exactly while the current node has more than three neighbours")
	c.resolveGuard("RESOLVE-GUARD")
	c.Decides("NO-BREAK: the loop of RemoveEdges over the branches to contract is not left by a break: a candidate that is skipped (tip branch, root branch) does not hide the candidates after it")
	if fi := c.Func("tree", "Tree", "RemoveEdges"); fi != nil {
		c.noBreakLoops("NO-BREAK", fi, "contracts exactly the non-root inner branches selected", "goes through the branches to contract")
	}
	c.Floor("NO-BREAK", 1)
	c.Decides("CMD-APPLIES: in the collapse and resolve commands every tree written inside the loop over the input trees has passed the Collapse*/Resolve call (no branch writes the tree back without it)")
	for _, fo := range [][2]string{{"cmd/collapsebrlen.go", "CollapseShortBranches"}, {"cmd/collapsedepth.go", "CollapseTopoDepth"}, {"cmd/collapsesupport.go", "CollapseLowSupport"}, {"cmd/resolve.go", "Resolve"}} {
		c.cmdApplies("CMD-APPLIES", fo[0], []string{fo[1]}, "contracts exactly the non-root inner branches selected")
	}
	c.Decides("REINDEX-LAST (go/cfg, shared with C04): Resolve and RemoveEdges pass a refresh of bitsets, hash codes and depths on every path from each of their structural edits to a successful exit")
	c.reindexLast("REINDEX-LAST", []string{"Resolve", "RemoveEdges"}, "leaves all other splits with their lengths and supports", false)
	c.Require("REINDEX-LAST/tree.Tree.Resolve/refresh-after-last-edit", "REINDEX-LAST/tree.Tree.RemoveEdges/refresh-after-last-edit")
	c.Decides("FILL-STEP: a loop of package tree that fills a slice through a running position declared outside the loop steps that position in the statement list of the store (resolveRecur's list of branches to regroup gets one branch per slot)")
	c.fillStep("FILL-STEP", c.AllFuncs("tree"), "yields a fully binary tree")
	c.Floor("FILL-STEP", 1)
	c.Decides("NO-RENAME: no call path from RemoveEdges, the Collapse* operations, Resolve or resolveRecur reaches Node.SetName or writes a node's name")
	c.noRename("NO-RENAME", []*FuncInfo{c.Func("tree", "Tree", "RemoveEdges"), c.Func("tree", "Tree", "CollapseShortBranches"), c.Func("tree", "Tree", "CollapseLowSupport"), c.Func("tree", "Tree", "CollapseTopoDepth"), c.Func("tree", "Tree", "Resolve"), c.Func("tree", "Tree", "resolveRecur")}, "all names untouched")
	c.Floor("NO-RENAME", 6)
	c.Decides("CMD-REACHES: in the collapse and resolve commands nothing between the head of the loop over the input trees and the call of the operation leaves the iteration except under an error test")
	for _, fo := range [][2]string{{"cmd/collapsebrlen.go", "CollapseShortBranches"}, {"cmd/collapsesupport.go", "CollapseLowSupport"}, {"cmd/collapsedepth.go", "CollapseTopoDepth"}, {"cmd/resolve.go", "Resolve"}} {
		c.cmdReaches("CMD-REACHES", fo[0], []string{fo[1]}, "removes exactly the inner branches that satisfy the documented criterion / yields a fully binary tree")
	}
	c.Floor("CMD-REACHES", 4)
	c.Floor("CMD-APPLIES", 4)
	c.Floor("RESOLVE-GUARD", 1)
	c.Decides("DESCENT: resolveRecur descends into every neighbour other than the one it came from (no further condition on the descent): every multifurcation is reached, wherever it sits")
	if fi := c.Func("tree", "Tree", "resolveRecur"); fi != nil {
		c.descentEverywhere("DESCENT", fi, "resolve yields a fully binary tree")
	}
	c.Floor("DESCENT", 1)
	c.Decides("OPTVAR-LOOP: no command overwrites the storage of one of its options, inside its loop over the input trees, with a value computed from the current tree (a threshold capped for one tree would then be used, capped, for every tree after it)")
	nl, _ := c.optVarLoop("OPTVAR-LOOP", "contracts exactly the branches meeting the criterion")
	if nl < 100 {
		c.Undecided("OPTVAR-LOOP", "scan-count", 0, fmt.Sprintf("only %d loops of package cmd seen (more than 100 confirmed by hand)", nl))
	}
	c.Floor("GF", 4)
	c.Floor("LF", 6)
	c.Floor("PAIR", 8)
}

// inlineNneigh rewrites X.Nneigh() compared with a constant into len(X.neigh).
func (c *Ctx) inlineNneigh(b *bexpr) *bexpr {
	if b == nil {
		return nil
	}
	switch b.op {
	case "and", "or":
		return &bexpr{op: b.op, l: c.inlineNneigh(b.l), r: c.inlineNneigh(b.r)}
	case "not":
		return bNot(c.inlineNneigh(b.l))
	case "cmp":
		f := func(s string) string {
			const suf = ".Nneigh()"
			if strings.HasSuffix(s, suf) && c.nneighIsLen() {
				return "len(" + strings.TrimSuffix(s, suf) + ".neigh)"
			}
			return s
		}
		return &bexpr{op: "cmp", cmp: b.cmp, a: f(b.a), b: f(b.b)}
	}
	return b
}

var nneighChecked, nneighOK bool

func (c *Ctx) nneighIsLen() bool {
	if nneighChecked {
		return nneighOK
	}
	nneighChecked = true
	fi := c.FuncOpt("tree", "Node", "Nneigh")
	if fi == nil || len(fi.Decl.Body.List) != 1 {
		return false
	}
	ret, ok := fi.Decl.Body.List[0].(*ast.ReturnStmt)
	if !ok || len(ret.Results) != 1 {
		return false
	}
	r := recvObj(fi.Pkg.TypesInfo, fi.Decl)
	nneighOK = r != nil && c.canon(fi.Pkg.TypesInfo, ret.Results[0], nil) == "len("+r.Name()+".neigh)"
	return nneighOK
}

// transferForms: per receiver, the three setters either copy (length,support,pvalue) of ONE source
// branch, or (connecting branch) write the constants (0 | parameters, NIL_SUPPORT, NIL_PVALUE).
func (c *Ctx) transferForms(fi *FuncInfo, name string, connectingConst bool) {
	info := fi.Pkg.TypesInfo
	type rec struct {
		field string
		p     *poly
		call  *ast.CallExpr
	}
	byRecv := map[string][]rec{}
	var order []string
	// the function and the unexported helpers of its package it calls (an extracted "move this
	// branch under the new node" step keeps its three setter calls together in the helper)
	units := []*FuncInfo{fi}
	seenU := map[*types.Func]bool{fi.Obj: true}
	for i := 0; i < len(units) && i < 6; i++ {
		for _, call := range callsIn(units[i].Decl.Body, true) {
			g := calleeOf(units[i].Pkg.TypesInfo, call)
			if g == nil || seenU[g] || g.Exported() || g.Pkg() != fi.Obj.Pkg() {
				continue
			}
			if gi := c.FuncOfObj(g); gi != nil && gi.Decl.Body != nil {
				seenU[g] = true
				units = append(units, gi)
			}
		}
	}
	for ui, u := range units {
		uinfo := u.Pkg.TypesInfo
		env := c.newLFEnv(uinfo, u.Decl.Body)
		prefix := ""
		if ui > 0 {
			prefix = u.Obj.Name() + ":"
		}
		for _, f := range []string{"length", "support", "pvalue"} {
			for _, sc := range c.setterCalls(uinfo, u.Decl.Body, f, env.o) {
				p, err := env.fold(sc.arg)
				if err != nil {
					if ui == 0 {
						c.Undecided("LF", name+"/"+sc.recv+".set-"+f, sc.call.Pos(), err.Error())
					}
					continue
				}
				r := prefix + sc.recv
				if _, ok := byRecv[r]; !ok {
					order = append(order, r)
				}
				byRecv[r] = append(byRecv[r], rec{f, p, sc.call})
			}
		}
	}
	one := big.NewRat(1, 1)
	copies := 0
	for _, r := range order {
		recs := byRecv[r]
		// classify: copy or constant
		src := ""
		isCopy := false
		for _, x := range recs {
			if a, q, ok := x.p.singleAtom(); ok && q.Cmp(one) == 0 {
				for _, f := range []string{".length", ".support", ".pvalue"} {
					if strings.HasSuffix(a, f) {
						isCopy = true
						if src == "" {
							src = strings.TrimSuffix(a, f)
						}
					}
				}
			}
		}
		if isCopy {
			copies++
			fields := map[string]bool{}
			for _, x := range recs {
				key := name + "/" + r + ".set-" + x.field
				a, q, ok := x.p.singleAtom()
				good := ok && q.Cmp(one) == 0 && a == src+"."+x.field
				fields[x.field] = true
				c.Check(good, "LF", key, x.call.Pos(), x.field+" copied from "+src, fmt.Sprintf("re-created branch gets %s = %s, not the %s of the branch it replaces (%s)", x.field, x.p.String(), x.field, src)).Clause = "leaves all other splits with their lengths and supports untouched"
			}
			for _, f := range []string{"length", "support", "pvalue"} {
				if !fields[f] {
					c.Violation("LF", name+"/"+r+".set-"+f, recs[0].call.Pos(), "re-created branch "+r+" does not receive the "+f+" of the branch it replaces ("+src+")").Clause = "keeps every original split (with its values)"
				}
			}
			continue
		}
		// connecting branch
		for _, x := range recs {
			key := name + "/" + r + ".set-" + x.field
			s := x.p.String()
			var good bool
			if connectingConst {
				switch x.field {
				case "length":
					good = s == "0"
				case "support":
					good = s == "NIL_SUPPORT"
				case "pvalue":
					good = s == "NIL_PVALUE"
				}
				c.Check(good, "LF", key, x.call.Pos(), "connecting branch "+x.field+" = "+s, "the branch added by resolve gets "+x.field+" = "+s+"; property: only zero-length branches without support are added").Clause = "only adds zero-length branches without support"
			} else {
				// AddBipartition: the parameters length / support
				pl, ps := paramObj(info, fi.Decl, 2), paramObj(info, fi.Decl, 3)
				switch x.field {
				case "length":
					good = pl != nil && s == pl.Name()
				case "support":
					good = ps != nil && s == ps.Name()
				default:
					good = true
				}
				c.Check(good, "LF", key, x.call.Pos(), "new bipartition branch "+x.field+" = parameter "+s, "new bipartition branch gets "+x.field+" = "+s+" instead of the value passed by the caller").Clause = "each such branch carries that frequency as support and the mean of its lengths"
			}
		}
	}
	if copies == 0 {
		c.Violation("LF", name+"/transfer", fi.Decl.Pos(), "no re-created branch receives the values of the branch it replaces").Clause = "keeps every original split"
	}
}
