package main

import (
	"fmt"
	"go/ast"
	"go/token"
	"go/types"
	"math/big"
)

// symExec — sequential symbolic execution of small, loop-free functions whose control flow
// depends only on comparisons between a few input atoms (quartet taxa, tip counts): given a
// total preorder of the atoms (rank), run the statements, follow the branch each comparison
// selects, and return the normal form of the returned expression. No arithmetic is executed:
// values stay polynomials over the input atoms.
type symExec struct {
	c     *Ctx
	info  *types.Info
	env   *lfEnv
	rank  map[string]int // atom -> rank; equal rank = equal value
	steps int
}

func (c *Ctx) newSymExec(info *types.Info, body *ast.BlockStmt, rank map[string]int) *symExec {
	env := &lfEnv{c: c, info: info, o: &canonOpts{subst: map[types.Object]string{}}, inits: map[types.Object]ast.Expr{}, vals: map[types.Object]*poly{}}
	return &symExec{c: c, info: info, env: env, rank: rank}
}

// value of a comparison operand: rank of its atom, or a constant
func (x *symExec) operand(e ast.Expr) (rank int, isConst bool, cv float64, err error) {
	p, err := x.env.fold(e)
	if err != nil {
		return 0, false, 0, err
	}
	if v, ok := p.isConst(); ok {
		f, _ := v.Float64()
		return 0, true, f, nil
	}
	a, q, ok := p.singleAtom()
	if !ok || q.Cmp(big.NewRat(1, 1)) != 0 {
		return 0, false, 0, fmt.Errorf("comparison operand %s is not an input atom", p.String())
	}
	r, ok := x.rank[a]
	if !ok {
		return 0, false, 0, fmt.Errorf("comparison on %s, which is not among the enumerated inputs", a)
	}
	return r, false, 0, nil
}

func (x *symExec) cond(e ast.Expr) (bool, error) {
	switch b := unparen(e).(type) {
	case *ast.Ident:
		if b.Name == "true" || b.Name == "false" {
			if _, isConst := x.info.Uses[b].(*types.Const); isConst {
				return b.Name == "true", nil
			}
		}
	case *ast.CallExpr:
		// a boolean helper of the repository made of if/return statements over its parameters:
		// evaluated on the values of the arguments
		g := calleeOf(x.info, b)
		gi := x.c.FuncOfObj(g)
		if g == nil || gi == nil || gi.Decl.Body == nil || gi.Decl.Recv != nil || x.steps > 2000 {
			break
		}
		sig := g.Type().(*types.Signature)
		if sig.Variadic() || sig.Params().Len() != len(b.Args) || sig.Results().Len() != 1 {
			break
		}
		ginfo := gi.Pkg.TypesInfo
		h := x.c.newSymExec(ginfo, gi.Decl.Body, x.rank)
		h.steps = x.steps + 1
		for i, a := range b.Args {
			p := paramObj(ginfo, gi.Decl, i)
			v, err := x.env.fold(a)
			if err != nil {
				return false, err
			}
			if p != nil {
				h.env.vals[p] = v
			}
		}
		v, decided, err := h.boolBody(gi.Decl.Body.List)
		if err != nil {
			return false, err
		}
		if !decided {
			return false, fmt.Errorf("helper %s does not return on this path", g.Name())
		}
		return v, nil
	case *ast.UnaryExpr:
		if b.Op == token.NOT {
			v, err := x.cond(b.X)
			return !v, err
		}
	case *ast.BinaryExpr:
		switch b.Op {
		case token.LAND:
			l, err := x.cond(b.X)
			if err != nil || !l {
				return false, err
			}
			return x.cond(b.Y)
		case token.LOR:
			l, err := x.cond(b.X)
			if err != nil || l {
				return l, err
			}
			return x.cond(b.Y)
		case token.EQL, token.NEQ, token.LSS, token.LEQ, token.GTR, token.GEQ:
			lr, lc, _, err := x.operand(b.X)
			if err != nil {
				return false, err
			}
			rr, rc, _, err := x.operand(b.Y)
			if err != nil {
				return false, err
			}
			if lc && rc {
				_, _, lv, _ := x.operand(b.X)
				_, _, rv, _ := x.operand(b.Y)
				switch b.Op {
				case token.EQL:
					return lv == rv, nil
				case token.NEQ:
					return lv != rv, nil
				case token.LSS:
					return lv < rv, nil
				case token.LEQ:
					return lv <= rv, nil
				case token.GTR:
					return lv > rv, nil
				case token.GEQ:
					return lv >= rv, nil
				}
			}
			if lc || rc {
				return false, fmt.Errorf("comparison with a constant is outside the enumerated domain")
			}
			switch b.Op {
			case token.EQL:
				return lr == rr, nil
			case token.NEQ:
				return lr != rr, nil
			case token.LSS:
				return lr < rr, nil
			case token.LEQ:
				return lr <= rr, nil
			case token.GTR:
				return lr > rr, nil
			case token.GEQ:
				return lr >= rr, nil
			}
		}
	}
	return false, fmt.Errorf("condition %s not understood", types.ExprString(e))
}

// boolBody runs a body made of if statements and returns of boolean expressions.
func (x *symExec) boolBody(list []ast.Stmt) (val, decided bool, err error) {
	for _, st := range list {
		switch s := st.(type) {
		case *ast.ReturnStmt:
			if len(s.Results) != 1 {
				return false, false, fmt.Errorf("helper returns %d values", len(s.Results))
			}
			v, err := x.cond(s.Results[0])
			return v, true, err
		case *ast.IfStmt:
			if s.Init != nil {
				return false, false, fmt.Errorf("if with an init statement in a boolean helper")
			}
			t, err := x.cond(s.Cond)
			if err != nil {
				return false, false, err
			}
			var v, d bool
			switch {
			case t:
				v, d, err = x.boolBody(s.Body.List)
			case s.Else != nil:
				if blk, ok := s.Else.(*ast.BlockStmt); ok {
					v, d, err = x.boolBody(blk.List)
				} else {
					v, d, err = x.boolBody([]ast.Stmt{s.Else})
				}
			}
			if err != nil || d {
				return v, d, err
			}
		case *ast.BlockStmt:
			v, d, err := x.boolBody(s.List)
			if err != nil || d {
				return v, d, err
			}
		default:
			return false, false, fmt.Errorf("statement %T in a boolean helper not understood", st)
		}
	}
	return false, false, nil
}

// sameValue: two expressions denote the same value (equal constants, or input atoms of equal rank).
func (x *symExec) sameValue(a, b ast.Expr) (bool, error) {
	pa, err := x.env.fold(a)
	if err != nil {
		return false, err
	}
	pb, err := x.env.fold(b)
	if err != nil {
		return false, err
	}
	ca, okA := pa.isConst()
	cb, okB := pb.isConst()
	if okA && okB {
		return ca.Cmp(cb) == 0, nil
	}
	if okA != okB {
		return false, nil
	}
	ra, _, _, err := x.operand(a)
	if err != nil {
		return false, err
	}
	rb, _, _, err := x.operand(b)
	if err != nil {
		return false, err
	}
	return ra == rb, nil
}

// run executes a statement list; ret != nil when a return was executed.
func (x *symExec) run(list []ast.Stmt) (ret *poly, err error) {
	for _, s := range list {
		x.steps++
		switch st := s.(type) {
		case *ast.DeclStmt:
			gd, ok := st.Decl.(*ast.GenDecl)
			if !ok {
				return nil, fmt.Errorf("declaration not understood")
			}
			for _, sp := range gd.Specs {
				vs, ok := sp.(*ast.ValueSpec)
				if !ok {
					continue
				}
				for i, n := range vs.Names {
					o := x.info.Defs[n]
					if o == nil {
						continue
					}
					if i < len(vs.Values) {
						p, err := x.env.fold(vs.Values[i])
						if err != nil {
							return nil, err
						}
						x.env.vals[o] = p
					} else {
						x.env.vals[o] = pInt(0)
					}
				}
			}
		case *ast.AssignStmt:
			if len(st.Lhs) != len(st.Rhs) {
				return nil, fmt.Errorf("assignment shape not understood")
			}
			if st.Tok != token.ASSIGN && st.Tok != token.DEFINE {
				return nil, fmt.Errorf("operator assignment not understood")
			}
			vals := make([]*poly, len(st.Rhs))
			for i, r := range st.Rhs {
				p, err := x.env.fold(r)
				if err != nil {
					return nil, err
				}
				vals[i] = p
			}
			for i, l := range st.Lhs {
				o := identObj(x.info, l)
				if o == nil {
					return nil, fmt.Errorf("assignment to %s not understood", types.ExprString(l))
				}
				x.env.vals[o] = vals[i]
			}
		case *ast.IfStmt:
			if st.Init != nil {
				if _, err := x.run([]ast.Stmt{st.Init}); err != nil {
					return nil, err
				}
			}
			v, err := x.cond(st.Cond)
			if err != nil {
				return nil, err
			}
			if v {
				r, err := x.run(st.Body.List)
				if err != nil || r != nil {
					return r, err
				}
			} else if st.Else != nil {
				r, err := x.run([]ast.Stmt{st.Else})
				if err != nil || r != nil {
					return r, err
				}
			}
		case *ast.BlockStmt:
			r, err := x.run(st.List)
			if err != nil || r != nil {
				return r, err
			}
		case *ast.SwitchStmt:
			if st.Init != nil {
				if _, err := x.run([]ast.Stmt{st.Init}); err != nil {
					return nil, err
				}
			}
			var chosen, deflt *ast.CaseClause
			for _, cs := range st.Body.List {
				cc := cs.(*ast.CaseClause)
				if cc.List == nil {
					deflt = cc
					continue
				}
				if chosen != nil {
					continue
				}
				for _, v := range cc.List {
					var hit bool
					var err error
					if st.Tag != nil {
						hit, err = x.sameValue(st.Tag, v)
					} else {
						hit, err = x.cond(v)
					}
					if err != nil {
						return nil, err
					}
					if hit {
						chosen = cc
						break
					}
				}
			}
			if chosen == nil {
				chosen = deflt
			}
			if chosen != nil {
				for _, b := range chosen.Body {
					if br, ok := b.(*ast.BranchStmt); ok && br.Tok == token.FALLTHROUGH {
						return nil, fmt.Errorf("fallthrough not understood")
					}
				}
				r, err := x.run(chosen.Body)
				if err != nil || r != nil {
					return r, err
				}
			}
		case *ast.ReturnStmt:
			if len(st.Results) != 1 {
				return nil, fmt.Errorf("return shape not understood")
			}
			return x.env.fold(st.Results[0])
		case *ast.EmptyStmt:
		default:
			return nil, fmt.Errorf("statement %T not understood", s)
		}
	}
	return nil, nil
}

// permutations of 0..n-1
func permutations(n int) [][]int {
	var out [][]int
	a := make([]int, n)
	for i := range a {
		a[i] = i
	}
	var rec func(k int)
	rec = func(k int) {
		if k == n {
			out = append(out, append([]int{}, a...))
			return
		}
		for i := k; i < n; i++ {
			a[k], a[i] = a[i], a[k]
			rec(k + 1)
			a[k], a[i] = a[i], a[k]
		}
	}
	rec(0)
	return out
}
