package main

import (
	"fmt"
	"go/ast"
	"go/token"
	"go/types"
	"strings"
)

func init() { props["C12"] = checkC12 }

// C12 — the thinnest claim of the set: optimality of the dynamic programme is a numerical fact no
// static argument in reach decides. What is decided: the character (acr) and sequence (asr)
// implementations are the same algorithm (normalised skeletons equal, the per-site loop of asr
// projected away), and the local decisions of that algorithm are the documented ones.

func checkC12(c *Ctx) {
	c.Decides("SIBLING: each of parsimonyUPPASS (inner-node branch), parsimonyDOWNPASS, parsimonyDELTRAN, parsimonyACCTRAN, computeParsimony and randomlyResolveNodeStates is reduced, in package acr and in package asr, to a normalised skeleton (loops over children / states, count-vs-threshold decisions normalised to 'count >= k', which state vector of which node is read or written, accumulation operators, calls) with the per-site loop of asr projected away; the two skeletons must be equal ('sequence reconstruction agrees site by site with single-character reconstruction')")
	c.Decides("DISPATCH (sibling): ParsimonyAcr and ParsimonyAsr run the same passes per algorithm constant, in the same order and with the same use of the random-resolution option, and both write the result onto the tree afterwards")
	c.parsDispatch("DISPATCH", "sequence reconstruction agrees site by site with single-character reconstruction")
	c.Floor("DISPATCH", 4)
	c.Decides("STATE-ALIAS: in packages acr and asr no entry of a per-node state table is assigned from an entry of a table of the same type (no two entries share storage: a pass that writes one table cannot alter another, tips included)")
	if sites, _ := c.stateAlias("STATE-ALIAS", c.AllFuncs("acr", "asr"), "Tip states are never altered"); sites == 0 {
		c.Undecided("STATE-ALIAS", "scan", token.NoPos, "no store into a per-node state table seen in acr / asr")
	} else {
		c.OK("STATE-ALIAS", "scan", token.NoPos, fmt.Sprintf("%d stores into per-node state tables, none copies an entry of another table", sites))
	}
	c.Decides("GF: kept states are exactly those whose count equals a running maximum taken from 0 with a strict test; a step is counted exactly for each child whose count of the kept (arg-max) state is 0; FRESH: every temporary count vector is allocated inside the innermost child/site loop that accumulates into it (no leak between sites or children); PATH: the second passes store into a node's own state vector only under 'not a tip'")
	c.DoesNotDecide("optimality (steps = true minimum), membership of reported states in most-parsimonious reconstructions, independence of the rooting: numerical facts about a dynamic programme; ACCTRAN's stores into child vectors are not shown to leave tips unchanged")
	c.Decides("LASTLINE (shared with C05/C06/C15): the line readers behind the --states file of acr do not read lines with bufio ReadString/ReadBytes unless they handle io.EOF and strip the carriage return (a state read as \"A\\r\" is another state than \"A\")")
	c.lastLineIn("tip states are never altered", "cmd/acr.go", "cmd/asr.go")
	c.Decides("ARGNAME: the acr and asr commands (like every command) pass to a boolean library parameter with a telling name the option variable named after it, not a neighbouring option variable of the same type")
	{
		var fs []*FuncInfo
		fs = append(fs, c.AllFuncs("cmd")...)
		fs = append(fs, c.PkgLevelClosures("cmd")...)
		ns, _ := c.argName("ARGNAME", fs, "without random resolution, tip states are never altered and the plain down-pass reports exactly all optimal states")
		c.Extra["argname_sites"] = ns
	}
	c.Floor("ARGNAME", 8)
	pairs := []string{"parsimonyUPPASS", "parsimonyDOWNPASS", "parsimonyDELTRAN", "parsimonyACCTRAN", "computeParsimony", "randomlyResolveNodeStates"}
	for _, fn := range pairs {
		a := c.Func("acr", "", fn)
		s := c.Func("asr", "", fn)
		if a == nil || s == nil {
			continue
		}
		ka, ea := c.parsSkeleton(a)
		ks, es := c.parsSkeleton(s)
		key := "parsimony/" + fn
		if ea != nil || es != nil {
			c.Undecided("SIBLING", key, a.Decl.Pos(), fmt.Sprintf("skeleton extraction stopped: acr=%v asr=%v", ea, es))
			continue
		}
		if ka == ks {
			c.OK("SIBLING", key, a.Decl.Pos(), fmt.Sprintf("acr and asr skeletons equal (%d tokens)", len(strings.Fields(ka))))
		} else {
			c.Violation("SIBLING", key, s.Decl.Pos(), "the character (acr) and the sequence (asr) implementation of "+fn+" are no longer the same algorithm; first difference: "+firstDiff(ka, ks)).Clause = "Sequence reconstruction agrees site by site with single-character reconstruction"
		}
	}
	for _, pk := range []string{"acr", "asr"} {
		c.keptIsMax(pk)
		c.stepIsLackingChild(pk)
		c.freshTemps(pk)
		c.ownStateUnderNotTip(pk)
	}
	c.Decides("PATH/GF (set-up): every node is renumbered unconditionally before the passes (state vectors are indexed by id); each possible state of a tip is initialised with the constant 1")
	c.parsimonyInit()
	c.Floor("SIBLING", 6)
	c.Floor("GF", 4)
	c.Floor("FRESH", 4)
	c.Floor("PATH", 4)
}

func firstDiff(a, b string) string {
	ta, tb := strings.Fields(a), strings.Fields(b)
	i := 0
	for i < len(ta) && i < len(tb) && ta[i] == tb[i] {
		i++
	}
	lo := i - 4
	if lo < 0 {
		lo = 0
	}
	ha, hb := i+6, i+6
	if ha > len(ta) {
		ha = len(ta)
	}
	if hb > len(tb) {
		hb = len(tb)
	}
	return fmt.Sprintf("token %d: acr `… %s` vs asr `… %s`", i, strings.Join(ta[lo:ha], " "), strings.Join(tb[lo:hb], " "))
}

// ---------------------------------------------------------------------------------------

type parsNorm struct {
	c         *Ctx
	info      *types.Info
	fi        *FuncInfo
	vec       map[types.Object]string // S, U params; aliases; temps
	node      map[types.Object]string // cur, prev, c1, c2
	elem      map[types.Object]string // range value over a vector: "cnt(S[c1])"
	drop      map[types.Object]bool   // site / state keys
	depthC    int
	inl       int
	err       error
	ren       *canonOpts              // result variable of an inlined helper -> the caller's variable it is assigned to
	dead      map[types.Object]bool   // integer locals that feed nothing (only counted, or handed to an unused parameter)
	idOf      map[types.Object]string // `curIdx := cur.Id()`: the local stands for the id of that node role
	neigh     map[types.Object]string // `neighbors := cur.Neigh()`: the local stands for the neighbour list of that role
	neighElem map[types.Object]string // index variable of a counting loop over a neighbour list -> role of the element
	neighList []ast.Expr              // the lists those loops walk (innermost last)
}

// neighIndexLoop: a counting loop from 0 to len(L), step +1, L a neighbour list (declared in the loop's
// init or before it); the body does not assign the counter.
func (pn *parsNorm) neighIndexLoop(x *ast.ForStmt) (idx types.Object, list ast.Expr, ok bool) {
	info := pn.info
	init, isAs := x.Init.(*ast.AssignStmt)
	if !isAs || init.Tok != token.DEFINE || len(init.Lhs) != len(init.Rhs) || x.Cond == nil || x.Post == nil {
		return nil, nil, false
	}
	for i := range init.Lhs {
		o := identObj(info, init.Lhs[i])
		if o == nil {
			return nil, nil, false
		}
		if tv, has := info.Types[init.Rhs[i]]; has && tv.Value != nil && constKey(tv.Value) == "0" {
			if idx != nil {
				return nil, nil, false
			}
			idx = o
		} else if r, isN := pn.neighRole(init.Rhs[i]); isN {
			if pn.neigh == nil {
				pn.neigh = map[types.Object]string{}
			}
			pn.neigh[o] = r
		} else {
			return nil, nil, false
		}
	}
	if idx == nil {
		return nil, nil, false
	}
	inc, isInc := x.Post.(*ast.IncDecStmt)
	if !isInc || inc.Tok != token.INC || identObj(info, inc.X) != idx {
		return nil, nil, false
	}
	be, isBin := unparen(x.Cond).(*ast.BinaryExpr)
	if !isBin || be.Op != token.LSS || identObj(info, be.X) != idx {
		return nil, nil, false
	}
	lc, isCall := unparen(be.Y).(*ast.CallExpr)
	if !isCall || len(lc.Args) != 1 {
		return nil, nil, false
	}
	if f, isId := lc.Fun.(*ast.Ident); !isId || f.Name != "len" {
		return nil, nil, false
	}
	if _, isN := pn.neighRole(lc.Args[0]); !isN {
		return nil, nil, false
	}
	assigned := false
	ast.Inspect(x.Body, func(n ast.Node) bool {
		switch a := n.(type) {
		case *ast.AssignStmt:
			for _, l := range a.Lhs {
				if identObj(info, l) == idx {
					assigned = true
				}
			}
		case *ast.IncDecStmt:
			if identObj(info, a.X) == idx {
				assigned = true
			}
		}
		return true
	})
	if assigned {
		return nil, nil, false
	}
	return idx, lc.Args[0], true
}

// neighElemRole: e is `L[i]` with i the counter of an enclosing neighbour-list loop over that same L
func (pn *parsNorm) neighElemRole(e ast.Expr) (string, bool) {
	ix, ok := unparen(e).(*ast.IndexExpr)
	if !ok {
		return "", false
	}
	o := identObj(pn.info, ix.Index)
	if o == nil {
		return "", false
	}
	role, ok := pn.neighElem[o]
	if !ok {
		return "", false
	}
	want, ok1 := pn.neighRole(ix.X)
	for _, l := range pn.neighList {
		if got, ok2 := pn.neighRole(l); ok1 && ok2 && got == want && pn.c.canon(pn.info, l, nil) == pn.c.canon(pn.info, ix.X, nil) {
			return role, true
		}
	}
	return "", false
}

// nodeIdRole: e is `<node>.Id()` of a node with a role, or a local holding it
func (pn *parsNorm) nodeIdRole(e ast.Expr) (string, bool) {
	if call, ok := unparen(e).(*ast.CallExpr); ok {
		if sel, ok := unparen(call.Fun).(*ast.SelectorExpr); ok && sel.Sel.Name == "Id" && len(call.Args) == 0 {
			r, ok := pn.node[identObj(pn.info, sel.X)]
			return r, ok
		}
		return "", false
	}
	if o := identObj(pn.info, e); o != nil {
		r, ok := pn.idOf[o]
		return r, ok
	}
	return "", false
}

// neighRole: e is `<node>.Neigh()` of a node with a role, or a local holding it
func (pn *parsNorm) neighRole(e ast.Expr) (string, bool) {
	if call, ok := unparen(e).(*ast.CallExpr); ok {
		if sel, ok := unparen(call.Fun).(*ast.SelectorExpr); ok && sel.Sel.Name == "Neigh" && len(call.Args) == 0 {
			r, ok := pn.node[identObj(pn.info, sel.X)]
			return r, ok
		}
		return "", false
	}
	if o := identObj(pn.info, e); o != nil {
		r, ok := pn.neigh[o]
		return r, ok
	}
	return "", false
}

// cn: canonical text, with the result variables of inlined helpers named after the caller's variable.
func (pn *parsNorm) cn(e ast.Expr) string {
	if pn.ren != nil && len(pn.ren.subst) > 0 {
		return pn.c.canon(pn.info, e, pn.ren)
	}
	return pn.c.canon(pn.info, e, nil)
}

// inlinableResult: call is a call of a small helper that pn.call would inline and whose returns all
// hand back one and the same variable (a named result, or a local): that variable, and whether it is
// a named result (implicitly zero at entry).
func (pn *parsNorm) inlinableResult(call *ast.CallExpr) (res types.Object, named bool) {
	fn := calleeOf(pn.info, call)
	if fn == nil {
		return nil, false
	}
	g := pn.c.FuncOfObj(fn)
	if g == nil || g.Pkg != pn.fi.Pkg || g.Decl.Body == nil || fn == pn.fi.Obj || fn.Name() == "computeParsimony" || fn.Name() == "randomlyResolveNodeStates" || strings.HasPrefix(fn.Name(), "parsimony") {
		return nil, false
	}
	sig := fn.Type().(*types.Signature)
	if sig.Results().Len() != 1 {
		return nil, false
	}
	ginfo := g.Pkg.TypesInfo
	var namedRes types.Object
	if rl := g.Decl.Type.Results.List; len(rl) == 1 && len(rl[0].Names) == 1 {
		namedRes = ginfo.Defs[rl[0].Names[0]]
	}
	okAll := true
	ast.Inspect(g.Decl.Body, func(n ast.Node) bool {
		if _, isLit := n.(*ast.FuncLit); isLit {
			return false
		}
		if r, ok := n.(*ast.ReturnStmt); ok {
			var o types.Object
			if len(r.Results) == 0 {
				o = namedRes
			} else if len(r.Results) == 1 {
				o = identObj(ginfo, r.Results[0])
			}
			if o == nil || (res != nil && res != o) {
				okAll = false
			}
			res = o
		}
		return true
	})
	if !okAll || res == nil {
		return nil, false
	}
	return res, res == namedRes
}

func isStateVecType(t types.Type) bool {
	s := t.String()
	return strings.Contains(s, "AncestralState") || strings.Contains(s, "AncestralSequence") || s == "[]float64"
}

func (c *Ctx) parsSkeleton(fi *FuncInfo) (string, error) {
	info := fi.Pkg.TypesInfo
	pn := &parsNorm{c: c, info: info, fi: fi, vec: map[types.Object]string{}, node: map[types.Object]string{}, elem: map[types.Object]string{}, drop: map[types.Object]bool{}}
	nn, nv := 0, 0
	for i := 0; ; i++ {
		p := paramObj(info, fi.Decl, i)
		if p == nil {
			break
		}
		ts := p.Type().String()
		switch {
		case strings.HasSuffix(ts, "tree.Node"):
			pn.node[p] = []string{"cur", "prev"}[min(nn, 1)]
			nn++
		case isStateVecType(p.Type()):
			pn.vec[p] = []string{"S", "U", "V3"}[min(nv, 2)]
			nv++
		}
	}
	pn.dead = c.deadCounters(fi)
	body := fi.Decl.Body.List
	// UPPASS: only the inner-node branch is compared (tips differ on purpose)
	if fi.Obj.Name() == "parsimonyUPPASS" {
		var inner []ast.Stmt
		for _, s := range body {
			if is, ok := s.(*ast.IfStmt); ok && pn.condKey(is.Cond) == "tip(cur)" && is.Else != nil {
				if b, ok := is.Else.(*ast.BlockStmt); ok {
					inner = b.List
				}
			}
		}
		if inner == nil {
			return "", fmt.Errorf("inner-node branch (else of `if cur.Tip()`) not found")
		}
		body = inner
	}
	out := pn.stmts(body)
	return out, pn.err
}

// vecKey: which state vector an expression denotes: S[cur], U[c1], T ...
func (pn *parsNorm) vecKey(e ast.Expr) string {
	switch x := unparen(e).(type) {
	case *ast.Ident:
		o := identObj(pn.info, x)
		if k, ok := pn.vec[o]; ok {
			return k
		}
		return ""
	case *ast.SelectorExpr:
		if x.Sel.Name == "counts" || x.Sel.Name == "seq" {
			return pn.vecKey(x.X)
		}
		return ""
	case *ast.IndexExpr:
		base := pn.vecKey(x.X)
		if base == "" {
			return ""
		}
		// index by node id
		if r, ok := pn.nodeIdRole(x.Index); ok {
			return base + "[" + r + "]"
		}
		if call, ok := unparen(x.Index).(*ast.CallExpr); ok {
			if sel, ok := unparen(call.Fun).(*ast.SelectorExpr); ok && sel.Sel.Name == "Id" {
				if r, ok := pn.node[identObj(pn.info, sel.X)]; ok {
					return base + "[" + r + "]"
				}
			}
			return base + "[?]"
		}
		// index by a site/state key or a computed state index: element / projected
		if o := identObj(pn.info, x.Index); o != nil && pn.drop[o] {
			return base
		}
		return base + "[" + pn.c.canon(pn.info, x.Index, nil) + "]"
	case *ast.CompositeLit, *ast.CallExpr:
		return ""
	}
	return ""
}

// a scalar count term: element of a vector
func (pn *parsNorm) cntKey(e ast.Expr) string {
	if o := identObj(pn.info, e); o != nil {
		if k, ok := pn.elem[o]; ok {
			return k
		}
	}
	if ix, ok := unparen(e).(*ast.IndexExpr); ok {
		if v := pn.vecKey(ix.X); v != "" {
			idx := "k"
			if o := identObj(pn.info, ix.Index); o == nil || !pn.drop[o] {
				idx = pn.c.canon(pn.info, ix.Index, nil)
			}
			return "cnt(" + v + ")@" + idx
		}
	}
	return ""
}

func (pn *parsNorm) condKey(e ast.Expr) string {
	info := pn.info
	switch x := unparen(e).(type) {
	case *ast.UnaryExpr:
		if x.Op == token.NOT {
			return "!" + pn.condKey(x.X)
		}
	case *ast.CallExpr:
		if sel, ok := unparen(x.Fun).(*ast.SelectorExpr); ok && sel.Sel.Name == "Tip" {
			if r, ok := pn.node[identObj(info, sel.X)]; ok {
				return "tip(" + r + ")"
			}
		}
	case *ast.Ident:
		return x.Name
	case *ast.BinaryExpr:
		switch x.Op {
		case token.LAND, token.LOR:
			return "(" + pn.condKey(x.X) + x.Op.String() + pn.condKey(x.Y) + ")"
		}
		side := func(e ast.Expr) string {
			if isNilIdent(info, e) {
				return "nil"
			}
			if r, ok := pn.node[identObj(info, e)]; ok {
				return r
			}
			if k := pn.cntKey(e); k != "" {
				return strings.Split(k, "@")[0] + "@" + strings.SplitN(k+"@", "@", 3)[1]
			}
			if v, ok := intConstOf(info, e); ok {
				return fmt.Sprint(v)
			}
			if tv, ok := info.Types[e]; ok && tv.Value != nil {
				return constKey(tv.Value)
			}
			if id, ok := unparen(e).(*ast.Ident); ok {
				return id.Name
			}
			return pn.cn(e)
		}
		l, r := side(x.X), side(x.Y)
		op := x.Op
		// counts are sums of 0/1: `> k` is `>= k+1`
		if strings.HasPrefix(l, "cnt(") || l == "numstates" {
			if v, ok := intConstOf(info, x.Y); ok || isFloatConstInt(info, x.Y, &v) {
				switch op {
				case token.GTR:
					return fmt.Sprintf("%s>=%d", l, v+1)
				case token.GEQ:
					return fmt.Sprintf("%s>=%d", l, v)
				case token.LEQ: // c <= k is !(c >= k+1)
					return fmt.Sprintf("!%s>=%d", l, v+1)
				case token.LSS: // c < k is !(c >= k)
					return fmt.Sprintf("!%s>=%d", l, v)
				}
			}
		}
		// one orientation for order comparisons: a > b is b < a
		switch op {
		case token.GTR:
			return r + "<" + l
		case token.GEQ:
			return r + "<=" + l
		}
		return l + op.String() + r
	}
	return pn.cn(e)
}

func isFloatConstInt(info *types.Info, e ast.Expr, out *int64) bool {
	tv, ok := info.Types[e]
	if !ok || tv.Value == nil {
		return false
	}
	s := constKey(tv.Value)
	var v int64
	if _, err := fmt.Sscanf(s, "%d", &v); err == nil && fmt.Sprint(v) == s {
		*out = v
		return true
	}
	return false
}

func (pn *parsNorm) stmts(list []ast.Stmt) string {
	var out []string
	for i, s := range list {
		// `if C { continue }` followed by the rest  ==  `if !C { rest }`
		if is, ok := s.(*ast.IfStmt); ok && is.Else == nil && is.Init == nil && len(is.Body.List) == 1 {
			if br, ok := is.Body.List[0].(*ast.BranchStmt); ok && br.Tok == token.CONTINUE && !errGuard(pn.info, is.Cond) {
				rest := pn.stmts(list[i+1:])
				out = append(out, "if "+negKey(pn.condKey(is.Cond))+" { "+rest+" }")
				return strings.Join(out, " ; ")
			}
			// `if C { return }` (nothing returned) followed by the rest  ==  `if !C { rest }`
			if rt, ok := is.Body.List[0].(*ast.ReturnStmt); ok && len(rt.Results) == 0 && !errGuard(pn.info, is.Cond) && i+1 < len(list) {
				rest := pn.stmts(list[i+1:])
				out = append(out, "if "+negKey(pn.condKey(is.Cond))+" { "+rest+" }")
				return strings.Join(out, " ; ")
			}
		}
		// `if C { A; continue }` followed by the rest  ==  `if C { A } else { rest }`
		if is, ok := s.(*ast.IfStmt); ok && is.Else == nil && is.Init == nil && len(is.Body.List) > 1 && !errGuard(pn.info, is.Cond) {
			if br, ok := is.Body.List[len(is.Body.List)-1].(*ast.BranchStmt); ok && br.Tok == token.CONTINUE && br.Label == nil {
				synth := &ast.IfStmt{Cond: is.Cond, Body: &ast.BlockStmt{List: is.Body.List[:len(is.Body.List)-1]}, Else: &ast.BlockStmt{List: list[i+1:]}}
				if t := pn.stmt(synth); t != "" {
					out = append(out, t)
				}
				return strings.Join(out, " ; ")
			}
		}
		if t := pn.stmt(s); t != "" {
			out = append(out, t)
		}
	}
	return strings.Join(out, " ; ")
}

// negKey negates a normalised condition key.
func negKey(k string) string {
	switch {
	case strings.HasPrefix(k, "!"):
		return k[1:]
	case strings.Contains(k, "==") && !strings.Contains(k, "&&") && !strings.Contains(k, "||"):
		return strings.Replace(k, "==", "!=", 1)
	case strings.Contains(k, "!=") && !strings.Contains(k, "&&") && !strings.Contains(k, "||"):
		return strings.Replace(k, "!=", "==", 1)
	}
	if !strings.Contains(k, "&&") && !strings.Contains(k, "||") && !strings.Contains(k, ">") {
		// !(a < b) is b <= a ; !(a <= b) is b < a
		if i := strings.Index(k, "<="); i > 0 && strings.Count(k, "<") == 1 {
			return k[i+2:] + "<" + k[:i]
		}
		if i := strings.Index(k, "<"); i > 0 && strings.Count(k, "<") == 1 {
			return k[i+1:] + "<=" + k[:i]
		}
	}
	return "!" + k
}

func (pn *parsNorm) stmt(s ast.Stmt) string {
	info := pn.info
	switch x := s.(type) {
	case *ast.BlockStmt:
		return pn.stmts(x.List)
	case *ast.RangeStmt:
		// children: range over <node>.Neigh()
		if parent, ok := pn.neighRole(x.X); ok {
			pn.depthC++
			role := fmt.Sprintf("c%d", pn.depthC)
			if x.Value != nil {
				pn.node[identObj(info, x.Value)] = role
			}
			body := pn.stmts(x.Body.List)
			pn.depthC--
			return "forchildren(" + parent + ")as " + role + " { " + body + " }"
		}
		v := pn.vecKey(x.X)
		if v == "" {
			pn.fail("range over %s not understood", types.ExprString(x.X))
			return "?"
		}
		et := info.TypeOf(x.X)
		elemIsFloat := false
		if sl, ok := et.Underlying().(*types.Slice); ok {
			elemIsFloat = isFloat(sl.Elem())
		} else if n, ok := et.Underlying().(*types.Struct); ok {
			_ = n
			elemIsFloat = true // AncestralState{counts}: ranging is done on .counts; a struct itself is not ranged
		}
		if x.Key != nil {
			if o := identObj(info, x.Key); o != nil {
				pn.drop[o] = true
			}
		}
		if elemIsFloat {
			if x.Value != nil {
				if o := identObj(info, x.Value); o != nil {
					pn.elem[o] = "cnt(" + v + ")@k"
				}
			}
			return "forstates(" + v + ") { " + pn.stmts(x.Body.List) + " }"
		}
		// sites: the value is the same node's vector at this site; loop projected away
		if x.Value != nil {
			if o := identObj(info, x.Value); o != nil {
				pn.vec[o] = v
			}
		}
		return pn.stmts(x.Body.List)
	case *ast.ForStmt:
		// `for i := 0; i < len(L); i++` / `for i, L := 0, cur.Neigh(); i < len(L); i++` over a neighbour
		// list, the element taken as `L[i]`: the same walk as `for _, child := range cur.Neigh()`
		if idx, list, ok := pn.neighIndexLoop(x); ok {
			parent, _ := pn.neighRole(list)
			pn.depthC++
			role := fmt.Sprintf("c%d", pn.depthC)
			if pn.neighElem == nil {
				pn.neighElem = map[types.Object]string{}
			}
			pn.neighElem[idx] = role
			pn.neighList = append(pn.neighList, list)
			body := pn.stmts(x.Body.List)
			pn.neighList = pn.neighList[:len(pn.neighList)-1]
			delete(pn.neighElem, idx)
			pn.depthC--
			return "forchildren(" + parent + ")as " + role + " { " + body + " }"
		}
	case *ast.IfStmt:
		if x.Init != nil {
			if as, ok := x.Init.(*ast.AssignStmt); ok && as.Tok == token.DEFINE && len(as.Lhs) == 1 && len(as.Rhs) == 1 {
				if r, ok := pn.neighElemRole(as.Rhs[0]); ok {
					pn.node[identObj(info, as.Lhs[0])] = r
					return pn.stmt(&ast.IfStmt{If: x.If, Cond: x.Cond, Body: x.Body, Else: x.Else})
				}
			}
			// `if err = recurse(); err != nil { return }` and friends
			if t := pn.stmt(x.Init); t != "" {
				return t
			}
		}
		if errGuard(info, x.Cond) {
			return ""
		}
		// conjunctions are written as nested ifs: `if A && B {X}` == `if A { if B {X} }`
		if x.Else == nil {
			if be, ok := unparen(x.Cond).(*ast.BinaryExpr); ok && be.Op == token.LAND {
				inner := &ast.IfStmt{Cond: be.Y, Body: x.Body}
				outer := &ast.IfStmt{Cond: be.X, Body: &ast.BlockStmt{List: []ast.Stmt{inner}}}
				return pn.stmt(outer)
			}
		}
		ck := pn.condKey(x.Cond)
		thenS := pn.stmts(x.Body.List)
		if x.Else == nil {
			return "if " + ck + " { " + thenS + " }"
		}
		elseS := pn.stmt(x.Else.(ast.Stmt))
		// canonical polarity: a negated or `!=` condition with an else has its branches swapped
		if strings.HasPrefix(ck, "!") || (strings.Contains(ck, "!=") && !strings.Contains(ck, "&&") && !strings.Contains(ck, "||")) {
			ck, thenS, elseS = negKey(ck), elseS, thenS
		}
		return "if " + ck + " { " + thenS + " } else { " + elseS + " }"
	case *ast.IncDecStmt:
		if pn.dead[identObj(info, x.X)] {
			return ""
		}
		if k := pn.cntKey(x.X); k != "" {
			return k + x.Tok.String()
		}
		name := pn.cn(x.X)
		if strings.HasPrefix(name, "nsteps") {
			name = "nsteps"
		}
		return name + x.Tok.String()
	case *ast.AssignStmt:
		if len(x.Lhs) == 1 && pn.dead[identObj(info, x.Lhs[0])] {
			return ""
		}
		if x.Tok == token.DEFINE && len(x.Lhs) == len(x.Rhs) {
			// `curIdx, parentIdx := cur.Id(), prev.Id()` / `neighbors := cur.Neigh()`: names for ids and lists
			all := true
			for i := range x.Lhs {
				_, isId := pn.nodeIdRole(x.Rhs[i])
				_, isNeigh := pn.neighRole(x.Rhs[i])
				if identObj(info, x.Lhs[i]) == nil || !(isId || isNeigh) {
					all = false
				}
			}
			if all {
				for i := range x.Lhs {
					o := identObj(info, x.Lhs[i])
					if r, ok := pn.nodeIdRole(x.Rhs[i]); ok {
						if pn.idOf == nil {
							pn.idOf = map[types.Object]string{}
						}
						pn.idOf[o] = r
					} else if r, ok := pn.neighRole(x.Rhs[i]); ok {
						if pn.neigh == nil {
							pn.neigh = map[types.Object]string{}
						}
						pn.neigh[o] = r
					}
				}
				return ""
			}
		}
		if len(x.Lhs) == 1 && len(x.Rhs) == 1 {
			l, r := x.Lhs[0], x.Rhs[0]
			// temp / alias declarations
			if x.Tok == token.DEFINE {
				if o := identObj(info, l); o != nil {
					if role, ok := pn.neighElemRole(r); ok {
						pn.node[o] = role
						return ""
					}
					if v := pn.vecKey(r); v != "" {
						pn.vec[o] = v // alias
						return ""
					}
					if isStateVecType(o.Type()) {
						pn.vec[o] = "T"
						return "T:=new"
					}
				}
			}
			if k := pn.cntKey(l); k != "" {
				rv := pn.cntKey(r)
				if rv == "" {
					if tv, ok := info.Types[r]; ok && tv.Value != nil {
						rv = constKey(tv.Value)
					} else {
						rv = pn.cn(r)
					}
				}
				return k + x.Tok.String() + rv
			}
			// scalars
			lk := pn.cn(l)
			if strings.HasPrefix(lk, "nsteps") {
				// acr accumulates the steps returned by the recursion; asr shares a slice
				return ""
			}
			rk := pn.cntKey(r)
			if rk == "" {
				if tv, ok := info.Types[r]; ok && tv.Value != nil {
					rk = constKey(tv.Value)
				} else if call, ok := unparen(r).(*ast.CallExpr); ok {
					// `x := helper(..)` with the helper inlined: its result variable is x
					if res, named := pn.inlinableResult(call); res != nil {
						if pn.ren == nil {
							pn.ren = &canonOpts{subst: map[types.Object]string{}}
						}
						pn.ren.subst[res] = lk
						body := pn.call(call)
						if named {
							return lk + ":=0 ; " + body
						}
						return body
					}
					return pn.call(call)
				} else {
					rk = pn.cn(r)
				}
			}
			return lk + x.Tok.String() + rk
		}
		// multi-value: tempsteps, err = recurse(...)
		if len(x.Rhs) == 1 {
			if call, ok := unparen(x.Rhs[0]).(*ast.CallExpr); ok {
				return pn.call(call)
			}
		}
		pn.fail("assignment %s not understood", pn.c.src(x.Lhs[0]))
		return "?"
	case *ast.ExprStmt:
		if call, ok := x.X.(*ast.CallExpr); ok {
			return pn.call(call)
		}
	case *ast.ReturnStmt:
		return ""
	case *ast.DeclStmt:
		return ""
	}
	pn.fail("statement %T not understood", s)
	return "?"
}

func (pn *parsNorm) call(call *ast.CallExpr) string {
	info := pn.info
	fn := calleeOf(info, call)
	if id, ok := call.Fun.(*ast.Ident); ok && fn == nil {
		switch id.Name {
		case "copy":
			return "copy(" + pn.vecKey(call.Args[0]) + "," + pn.vecKey(call.Args[1]) + ")"
		case "make", "len", "append":
			return ""
		}
	}
	if fn == nil {
		return ""
	}
	if fn == pn.fi.Obj {
		var a []string
		for _, x := range call.Args[:2] {
			a = append(a, pn.node[identObj(info, x)])
		}
		return "recurse(" + strings.Join(a, ",") + ")"
	}
	// a small helper of the same package (not one of the compared functions): inline its body
	if g := pn.c.FuncOfObj(fn); g != nil && g.Pkg == pn.fi.Pkg && fn.Name() != "computeParsimony" && fn.Name() != "randomlyResolveNodeStates" && !strings.HasPrefix(fn.Name(), "parsimony") && pn.inl < 2 {
		ginfo := g.Pkg.TypesInfo
		for i, a := range call.Args {
			p := paramObj(ginfo, g.Decl, i)
			if p == nil {
				continue
			}
			if v := pn.vecKey(a); v != "" {
				pn.vec[p] = v
			} else if r, ok := pn.node[identObj(info, a)]; ok {
				pn.node[p] = r
			}
		}
		pn.inl++
		saved := pn.fi
		out := pn.stmts(g.Decl.Body.List)
		pn.fi = saved
		pn.inl--
		return out
	}
	switch fn.Name() {
	case "computeParsimony":
		return "computeParsimony(" + pn.vecKey(call.Args[0]) + "→" + pn.vecKey(call.Args[1]) + ")"
	case "randomlyResolveNodeStates":
		return "randomResolve(" + pn.node[identObj(info, call.Args[0])] + ")"
	case "Intn":
		return "Intn(" + pn.cn(call.Args[0]) + ")"
	}
	return ""
}

func (pn *parsNorm) fail(f string, a ...interface{}) {
	if pn.err == nil {
		pn.err = fmt.Errorf(f, a...)
	}
}

// ---------------------------------------------------------------------------------------

// keptIsMax: computeParsimony keeps exactly the states whose count equals the running maximum from 0.
func (c *Ctx) keptIsMax(pk string) {
	fi := c.Func(pk, "", "computeParsimony")
	if fi == nil {
		return
	}
	info := fi.Pkg.TypesInfo
	clause := "every state reported at an inner node occurs there in at least one most-parsimonious reconstruction"
	name := pk + ".computeParsimony"
	// running maximum: a float local initialised to 0, assigned c under c > max inside a range over the input
	var maxObj types.Object
	okMax := false
	ast.Inspect(fi.Decl.Body, func(n ast.Node) bool {
		is, ok := n.(*ast.IfStmt)
		if !ok || len(is.Body.List) != 1 {
			return true
		}
		as, ok := is.Body.List[0].(*ast.AssignStmt)
		if !ok || len(as.Lhs) != 1 || as.Tok != token.ASSIGN {
			return true
		}
		be, ok := unparen(is.Cond).(*ast.BinaryExpr)
		if !ok {
			return true
		}
		l, r, op := be.X, be.Y, be.Op
		if op == token.LSS {
			l, r, op = r, l, token.GTR
		}
		if op == token.GTR && identObj(info, r) == identObj(info, as.Lhs[0]) && identObj(info, l) != nil && identObj(info, l) == identObj(info, as.Rhs[0]) {
			maxObj = identObj(info, r)
			okMax = true
		}
		return true
	})
	// initialised to 0
	if okMax {
		init0 := false
		ast.Inspect(fi.Decl.Body, func(n ast.Node) bool {
			if as, ok := n.(*ast.AssignStmt); ok && as.Tok == token.DEFINE && len(as.Lhs) == 1 && identObj(info, as.Lhs[0]) == maxObj {
				if tv, ok := info.Types[as.Rhs[0]]; ok && tv.Value != nil && constKey(tv.Value) == "0" {
					init0 = true
				}
			}
			return true
		})
		okMax = init0
	}
	c.Check(okMax, "GF", name+"/running-max", fi.Decl.Pos(), "max is a running maximum from 0 (strict test)", "computeParsimony does not take the maximum count as a running maximum from 0 with `c > max`").Clause = clause
	if maxObj == nil {
		return
	}
	// stores of 1 / 0 into the output under c == max / else
	for _, st := range assignsToIndex(fi.Decl.Body) {
		tv, ok := info.Types[st.Rhs[0]]
		if !ok || tv.Value == nil {
			continue
		}
		v := constKey(tv.Value)
		conds, okc := c.pathConds(info, fi.Decl.Body, st, true)
		code := c.condsToBexpr(info, conds, nil)
		var cterm string
		terms, atoms := map[string]bool{}, map[string]bool{}
		code.collect(terms, atoms)
		for t := range terms {
			if t != maxObj.Name() {
				cterm = t
			}
		}
		spec := bCmp(cterm, token.EQL, maxObj.Name())
		if v == "0" {
			spec = bNot(spec)
		}
		eq, wit, _, err := gfEquiv(code, spec)
		key := name + "/store-" + v
		if !okc || err != nil || cterm == "" {
			c.Undecided("GF", key, st.Pos(), fmt.Sprintf("guard shape not understood: %v", err))
			continue
		}
		c.Check(eq, "GF", key, st.Pos(), "state set to "+v+" iff "+spec.String(), "a state is set to "+v+" under "+code.String()+", expected "+spec.String()+" (keep exactly the maxima): "+wit).Clause = clause
	}
}

func assignsToIndex(body ast.Node) []*ast.AssignStmt {
	var out []*ast.AssignStmt
	ast.Inspect(body, func(n ast.Node) bool {
		if as, ok := n.(*ast.AssignStmt); ok && len(as.Lhs) == 1 && len(as.Rhs) == 1 && as.Tok == token.ASSIGN {
			if _, ok := unparen(as.Lhs[0]).(*ast.IndexExpr); ok {
				out = append(out, as)
			}
		}
		return true
	})
	return out
}

// stepIsLackingChild: in UPPASS, nsteps++ happens once per child whose count of the arg-max state is 0.
func (c *Ctx) stepIsLackingChild(pk string) {
	fi := c.Func(pk, "", "parsimonyUPPASS")
	if fi == nil {
		return
	}
	info := fi.Pkg.TypesInfo
	name := pk + ".parsimonyUPPASS"
	clause := "a number of steps equal to the true minimum number of state changes ... for any tree shape including multifurcations"
	found := false
	ast.Inspect(fi.Decl.Body, func(n ast.Node) bool {
		inc, ok := n.(*ast.IncDecStmt)
		if !ok || inc.Tok != token.INC || !strings.HasPrefix(c.canon(info, inc.X, nil), "nsteps") {
			return true
		}
		found = true
		// inside a range over the children, skipping prev
		st := stackTo(fi.Decl.Body, inc)
		inChildren := false
		for _, s := range st {
			if rs, ok := s.(*ast.RangeStmt); ok {
				if call, ok := unparen(rs.X).(*ast.CallExpr); ok {
					if sel, ok := unparen(call.Fun).(*ast.SelectorExpr); ok && sel.Sel.Name == "Neigh" {
						inChildren = true
					}
				}
			}
		}
		// or a counting loop over the neighbour list (`neigh := cur.Neigh(); for i := 0; i < len(neigh); i++`)
		for _, s := range st {
			fs, isFor := s.(*ast.ForStmt)
			if !isFor || !isIndexLoop(info, fs) {
				continue
			}
			ast.Inspect(fs.Cond, func(m ast.Node) bool {
				call, isCall := m.(*ast.CallExpr)
				if !isCall || len(call.Args) != 1 {
					return true
				}
				if id, isId := call.Fun.(*ast.Ident); !isId || id.Name != "len" {
					return true
				}
				isNeigh := func(e ast.Expr) bool {
					if cl, ok := unparen(e).(*ast.CallExpr); ok {
						if sel, ok := unparen(cl.Fun).(*ast.SelectorExpr); ok && sel.Sel.Name == "Neigh" {
							return true
						}
					}
					return false
				}
				if isNeigh(call.Args[0]) {
					inChildren = true
				} else if lo, isVar := info.Uses[identOf(call.Args[0])].(*types.Var); isVar && identOf(call.Args[0]) != nil {
					for _, d := range localDefs(info, fi.Decl.Body, lo) {
						if isNeigh(d) {
							inChildren = true
						}
					}
				}
				return true
			})
		}
		conds, okc := c.pathConds(info, fi.Decl.Body, inc, true)
		conds = flattenConds(conds)
		// the conjunct comparing a child's count with 0
		var cmp *ast.BinaryExpr
		for _, cd := range conds {
			if cd.Expr == nil || cd.Neg {
				continue
			}
			if be, ok := unparen(cd.Expr).(*ast.BinaryExpr); ok && be.Op == token.EQL {
				if tv, ok := info.Types[be.Y]; ok && tv.Value != nil && constKey(tv.Value) == "0" {
					cmp = be
				}
			}
		}
		good := okc && inChildren && cmp != nil
		idxName := ""
		if good {
			// X[...][maxState] where maxState is assigned k under c > max
			ix, ok := unparen(cmp.X).(*ast.IndexExpr)
			if !ok {
				good = false
			} else {
				mo := identObj(info, ix.Index)
				if mo == nil {
					good = false
				} else {
					idxName = mo.Name()
					argmax := false
					ast.Inspect(fi.Decl.Body, func(m ast.Node) bool {
						is, ok := m.(*ast.IfStmt)
						if !ok {
							return true
						}
						be, ok := unparen(is.Cond).(*ast.BinaryExpr)
						if !ok || (be.Op != token.GTR && be.Op != token.LSS) {
							return true
						}
						setsIdx, setsMax := false, false
						for _, s := range is.Body.List {
							if as, ok := s.(*ast.AssignStmt); ok && len(as.Lhs) == 1 {
								if identObj(info, as.Lhs[0]) == mo {
									setsIdx = true
								} else {
									setsMax = true
								}
							}
						}
						if setsIdx && setsMax {
							argmax = true
						}
						return true
					})
					good = argmax
				}
			}
		}
		c.Check(good, "GF", name+"/step-iff-child-lacks-kept-state", inc.Pos(), "one step per child whose count of the arg-max state ("+idxName+") is 0", "a parsimony step is not counted exactly once per child lacking the kept (arg-max) state: on multifurcations the count differs from the number of changes needed").Clause = clause
		return true
	})
	if !found {
		c.Violation("GF", name+"/step-iff-child-lacks-kept-state", fi.Decl.Pos(), "no `nsteps++` per child lacking the kept state: steps are not counted child by child (wrong on multifurcations)").Clause = clause
	}
}

// freshTemps: every temporary vector is allocated inside the innermost child/site loop that accumulates into it.
func (c *Ctx) freshTemps(pk string) {
	for _, fn := range []string{"parsimonyDOWNPASS", "parsimonyDELTRAN", "parsimonyACCTRAN"} {
		fi := c.Func(pk, "", fn)
		if fi == nil {
			continue
		}
		info := fi.Pkg.TypesInfo
		name := pk + "." + fn
		// temps
		type temp struct {
			obj  types.Object
			decl ast.Node
		}
		var temps []temp
		ast.Inspect(fi.Decl.Body, func(n ast.Node) bool {
			if as, ok := n.(*ast.AssignStmt); ok && as.Tok == token.DEFINE && len(as.Lhs) == 1 {
				if o := identObj(info, as.Lhs[0]); o != nil && isStateVecType(o.Type()) {
					switch unparen(as.Rhs[0]).(type) {
					case *ast.CallExpr, *ast.CompositeLit:
						if cl, ok := unparen(as.Rhs[0]).(*ast.CallExpr); ok {
							if id, ok := cl.Fun.(*ast.Ident); !ok || id.Name != "make" {
								return true
							}
						}
						temps = append(temps, temp{o, as})
					}
				}
			}
			if ds, ok := n.(*ast.DeclStmt); ok {
				if gd, ok := ds.Decl.(*ast.GenDecl); ok {
					for _, sp := range gd.Specs {
						if vs, ok := sp.(*ast.ValueSpec); ok {
							for _, nm := range vs.Names {
								if o := info.Defs[nm]; o != nil && isStateVecType(o.Type()) {
									temps = append(temps, temp{o, ds})
								}
							}
						}
					}
				}
			}
			return true
		})
		for i, t := range temps {
			key := fmt.Sprintf("%s/temp#%d", name, i+1)
			bad := token.NoPos
			ast.Inspect(fi.Decl.Body, func(n ast.Node) bool {
				as, ok := n.(*ast.AssignStmt)
				if !ok || as.Tok != token.ADD_ASSIGN || len(as.Lhs) != 1 || !mentions(info, as.Lhs[0], t.obj) {
					return true
				}
				// innermost enclosing loop that is not a loop over the states of a vector
				st := stackTo(fi.Decl.Body, as)
				var inner *ast.RangeStmt
				for _, s := range st {
					rs, ok := s.(*ast.RangeStmt)
					if !ok {
						continue
					}
					if sl, ok := info.TypeOf(rs.X).Underlying().(*types.Slice); ok && isFloat(sl.Elem()) {
						continue // states loop
					}
					// nested children loop (child2) inside the allocation's loop is fine: only loops that enclose the accumulation but not the allocation matter
					if nodeContains(rs, t.decl.Pos()) {
						continue
					}
					if inner == nil {
						inner = rs
					}
				}
				if inner != nil {
					// a loop encloses the accumulation but not the allocation: allowed only for the nested loop over the other children
					if call, ok := unparen(inner.X).(*ast.CallExpr); ok {
						if sel, ok := unparen(call.Fun).(*ast.SelectorExpr); ok && sel.Sel.Name == "Neigh" {
							return true
						}
					}
					bad = as.Pos()
				}
				return true
			})
			if bad.IsValid() {
				_, ln := c.pos(bad)
				c.Violation("FRESH", key, t.decl.Pos(), fmt.Sprintf("the temporary count vector %s is allocated outside a loop (over sites or nodes) that accumulates into it (line %d): counts of one site/node leak into the next", t.obj.Name(), ln)).Clause = "Sequence reconstruction agrees site by site with single-character reconstruction"
			} else {
				c.OK("FRESH", key, t.decl.Pos(), "allocated inside the innermost site/child loop that accumulates into it")
			}
		}
	}
}

// ownStateUnderNotTip: DOWNPASS / DELTRAN write the current node's own vector only under !cur.Tip().
func (c *Ctx) ownStateUnderNotTip(pk string) {
	for _, fn := range []string{"parsimonyDOWNPASS", "parsimonyDELTRAN"} {
		fi := c.Func(pk, "", fn)
		if fi == nil {
			continue
		}
		info := fi.Pkg.TypesInfo
		name := pk + "." + fn
		cur := paramObj(info, fi.Decl, 0)
		// the whole work of the function is under `if !cur.Tip()`
		good := len(fi.Decl.Body.List) == 1
		if good {
			is, ok := fi.Decl.Body.List[0].(*ast.IfStmt)
			good = ok && is.Else == nil
			if good {
				k := c.canon(info, is.Cond, nil)
				good = k == "!"+cur.Name()+".Tip()"
			}
		}
		c.Check(good, "PATH", name+"/only-inner-nodes", fi.Decl.Pos(), "all stores happen under !cur.Tip()", name+" does work outside `if !cur.Tip()`: the state vector of a tip can be overwritten").Clause = "Without random resolution, tip states are never altered"
	}
}

// deadCounters: integer locals of fi whose every use is an assignment of a constant, an increment,
// or an argument bound to a parameter the callee never reads: they influence nothing.
func (c *Ctx) deadCounters(fi *FuncInfo) map[types.Object]bool {
	info := fi.Pkg.TypesInfo
	cand := map[types.Object]bool{}
	ast.Inspect(fi.Decl.Body, func(m ast.Node) bool {
		if id, ok := m.(*ast.Ident); ok {
			if v, ok := info.Defs[id].(*types.Var); ok && !v.IsField() {
				if b, ok := v.Type().Underlying().(*types.Basic); ok && b.Info()&types.IsInteger != 0 {
					cand[v] = true
				}
			}
		}
		return true
	})
	walkStack(fi.Decl.Body, func(m ast.Node, st []ast.Node) bool {
		id, ok := m.(*ast.Ident)
		if !ok {
			return true
		}
		v := info.Uses[id]
		if v == nil || !cand[v] || len(st) == 0 {
			return true
		}
		switch p := st[len(st)-1].(type) {
		case *ast.IncDecStmt:
			return true
		case *ast.AssignStmt:
			for i, l := range p.Lhs {
				if unparen(l) == ast.Expr(id) {
					if len(p.Lhs) == len(p.Rhs) {
						if tv, ok := info.Types[p.Rhs[i]]; ok && tv.Value != nil {
							return true
						}
					}
					if p.Tok == token.ADD_ASSIGN {
						return true
					}
				}
			}
		case *ast.CallExpr:
			if g := calleeOf(info, p); g != nil {
				if gi := c.FuncOfObj(g); gi != nil && gi.Decl.Body != nil {
					for i, a := range p.Args {
						if unparen(a) != ast.Expr(id) {
							continue
						}
						pp := paramObj(gi.Pkg.TypesInfo, gi.Decl, i)
						used := false
						if pp != nil {
							ast.Inspect(gi.Decl.Body, func(q ast.Node) bool {
								if id2, ok := q.(*ast.Ident); ok && gi.Pkg.TypesInfo.Uses[id2] == pp {
									used = true
								}
								return !used
							})
						}
						if pp != nil && !used {
							return true
						}
					}
				}
			}
		}
		delete(cand, v) // a real use
		return true
	})
	return cand
}
