package main

import (
	"fmt"
	"go/ast"
	"go/types"
	"strings"

	"golang.org/x/tools/go/packages"
)

func init() { props["C11"] = checkC11 }

func checkC11(c *Ctx) {
	c.Decides("GO-WG: every worker goroutine whose launcher does wg.Add signals wg.Done on every exit path (CFG must-pass-through); GO-CLOSE: every result channel that is ranged over or returned is closed by a goroutine on all of its paths, after wg.Wait when workers send on it; GO-NILCHAN: no receive/range on a local channel variable that is still nil on some path; GO-WRITE: inside a goroutine that has several live instances, every store goes to an object the instance owns (declared in it / received from a channel), to a slot indexed by such an object's id, under a mutex, or through sync/atomic — directly or through repository callees (bottom-up write summaries)")
	c.Decides("RANGE-CLOSED / WG-WAITED: in the threaded computations a channel created in a function and ranged over by a goroutine is closed in that function, and every WaitGroup that is Add-ed to is waited on afterwards")
	if n := c.rangeClosedAndWaited("RANGE-CLOSED", []*FuncInfo{c.Func("tree", "", "Compare"), c.Func("tree", "", "CompareWeighted"), c.Func("support", "", "FBP"), c.Func("support", "", "TBE")}, "no deadlock"); n < 4 {
		c.Undecided("RANGE-CLOSED", "scan", 0, fmt.Sprintf("only %d channels ranged over / wait groups seen in the four computations", n))
	}
	c.Decides("CHUNK-REMAINDER: a function of the threaded computations that cuts its work into pieces of len(x)/n elements deals with the remainder; NIL-ON-ERR: in Compare, CompareWeighted, FBP and TBE the Tree of a received item is touched only where its Err is known to be nil (a malformed tree reaches the caller as an error, not as a crash of a worker)")
	{
		fs := append(c.AllFuncs("support"), c.funcsInFiles("tree/algo.go")...)
		sites, _ := c.chunkRemainder("CHUNK-REMAINDER", fs, "the same results as the single-threaded computation whatever the number of threads")
		c.Trivial("CHUNK-REMAINDER", "scan", 0, fmt.Sprintf("%d work partitions by a quotient of a length", sites))
		s2, _ := c.nilOnErr("NIL-ON-ERR", []*FuncInfo{c.Func("tree", "", "Compare"), c.Func("tree", "", "CompareWeighted"), c.Func("support", "", "FBP"), c.Func("support", "", "TBE")}, "a malformed tree's error reaches the caller instead of a hang or a crash")
		if s2 < 8 {
			c.Undecided("NIL-ON-ERR", "scan", 0, fmt.Sprintf("only %d uses of an item's Tree seen in the four computations", s2))
		} else {
			c.Trivial("NIL-ON-ERR", "scan", 0, fmt.Sprintf("%d uses of an item's Tree, all where its Err is known to be nil", s2))
		}
	}
	c.Decides("COUNTER-STEP: in the readers every SetId(counter) is followed, in its statement list, by a step of that counter: branch ids are distinct, which the per-branch tallies written by concurrent workers (indexed by Edge.Id) rely on")
	c.counterStep("COUNTER-STEP", c.AllFuncs("io/newick", "io/phyloxml", "io/nextstrain"), "no data race on the per-branch tallies")
	c.Floor("COUNTER-STEP", 4)
	c.Decides("ERRFLOW: the per-tree error (Trees.Err, ReinitIndexes, CompareTipIndexes) reaches the record sent / the error returned on every path where it is non-nil")
	c.Decides("ERR-SWALLOW: in the same files, a branch entered because an error value is non-nil does not leave the function with a nil error (no `return nil`, no bare return with an unset named result)")
	c.DoesNotDecide("equality of results across thread counts beyond absence of shared unsynchronised stores (assumes edge ids unique and trees received from the channel not shared); scheduler fairness; races through external packages")
	c.Decides("ERR-DEAD: in the threaded computations, their readers and the compare/support commands, the error a call stores in a variable is read before that variable is assigned again on every path")
	c.errDeadIn("the error reaches the caller instead of a hang or a crash", 40, "tree/algo.go", "support/", "io/utils/readtrees.go", "cmd/comparetrees.go", "cmd/computesupport.go", "cmd/classical.go", "cmd/booster.go")
	c.Assume = append(c.Assume, "objects received from a channel are owned by the receiving goroutine", "edge ids used as slice indexes are unique per branch")
	clauseTerm := "they always terminate: when an input tree is malformed or carries an error, the error reaches the caller instead of a hang or a crash"
	clauseRace := "for every thread count and every interleaving ... without data races"
	inScope := func(s *goSite) bool {
		rel := strings.TrimPrefix(strings.TrimPrefix(s.pkg.PkgPath, modPath), "/")
		switch rel {
		case "tree", "support", "io/utils", "hashmap":
			return true
		}
		return false
	}
	sites := c.goSites(c.All)
	c.Extra["go_statements"] = len(sites)
	c.Floor("GO-WG", 6)
	c.Floor("GO-ALIAS", 3)
	c.Floor("GO-CLOSE", 3)
	nscope := 0
	launchers := map[*ast.BlockStmt]*goSite{}
	for _, s := range sites {
		if !inScope(s) {
			continue
		}
		nscope++
		launchers[s.launcher] = s
		c.goWG("GO-WG", s, clauseTerm)
		c.goWGCount("GO-WG", s, clauseTerm)
		c.sendAliases("GO-ALIAS", s, clauseRace)
		if s.lit != nil && s.inLoop {
			fs := c.goWrite(s)
			key := s.key() + "/shared-stores"
			if len(fs) == 0 {
				c.OK("GO-WRITE", key, s.stmt.Pos(), "all stores of this multi-instance goroutine go to owned objects, id-partitioned slots, locked regions or atomics")
			}
			seen := map[string]int{}
			for _, f := range fs {
				k := s.key() + "/store " + f.what
				seen[k]++
				if seen[k] > 1 {
					continue
				}
				c.Violation("GO-WRITE", k, f.pos, f.why+": data race for thread counts >= 2").Clause = clauseRace
			}
		} else if s.lit != nil {
			c.Trivial("GO-WRITE", s.key()+"/single-instance", s.stmt.Pos(), "launched once: no sibling instance to race with (stores checked against its launcher by GO-CLOSE/WG ordering only)")
		}
	}
	c.Extra["go_statements_in_scope"] = nscope
	for l, s := range launchers {
		c.goClose("GO-CLOSE", l, s.ltype, s.pkg, s.fnName, sites, clauseTerm)
	}
	// nil channels: all function bodies of cmd/comparetrees.go and of the in-scope packages
	nn := 0
	for _, p := range c.All {
		rel := strings.TrimPrefix(strings.TrimPrefix(p.PkgPath, modPath), "/")
		if rel != "cmd" && rel != "tree" && rel != "support" && rel != "io/utils" {
			continue
		}
		for _, f := range p.Syntax {
			walkStack(f, func(n ast.Node, stack []ast.Node) bool {
				var body *ast.BlockStmt
				switch x := n.(type) {
				case *ast.FuncDecl:
					body = x.Body
				case *ast.FuncLit:
					body = x.Body
				}
				if body != nil {
					nn += c.goNilChan("GO-NILCHAN", p, c.enclosingFuncName(p.TypesInfo, append(stack, n)), body, clauseTerm)
				}
				return true
			})
		}
	}
	c.Extra["channel_receives_on_declared_vars"] = nn
	if fx := c.Fixture(); fx != nil {
		sub := c.subCtx(fx)
		for _, p := range fx {
			for _, f := range p.Syntax {
				for _, d := range f.Decls {
					if fd, ok := d.(*ast.FuncDecl); ok && fd.Body != nil {
						sub.goNilChan("GO-NILCHAN", p, fd.Name.Name, fd.Body, "")
					}
				}
			}
		}
		hit := false
		for _, o := range sub.Obl {
			if o.Verdict == vViolation {
				hit = true
			}
		}
		c.Control("GO-NILCHAN", hit, "fixture.C11NilChan ranges over a channel variable that one branch never assigns")
	}
	if fx := c.Fixture(); fx != nil {
		sub := c.subCtx(fx)
		var fs []*FuncInfo
		for _, fi := range sub.AllFuncs() {
			if fi.Obj.Name() == "C11Swallow" {
				fs = append(fs, fi)
			}
		}
		_, nv := sub.errSwallow("ERR-SWALLOW", fs, "")
		c.Control("ERR-SWALLOW", nv == 1, "fixture.C11Swallow leaves with its unset named result inside `if r.Err != nil`")
	}
	// ERRFLOW inside the workers
	c.workerErrFlow("tree", "Compare", nil, clauseTerm)
	c.workerErrFlow("tree", "CompareWeighted", nil, clauseTerm)
	c.workerErrFlow("support", "FBP", nil, clauseTerm)
	c.tbeErrFlow(clauseTerm)
	// lock discipline of the hash map
	c.hashMapLocks("LOCKSET")
	c.Decides("GLOBAL-MUT: no function of the library packages (tree, io/*, support, hashmap, acr, asr, mutils, draw ...) stores into a package-level variable or mutates one through a pointer-receiver method: independent calls share no hidden state")
	ng, _ := c.globalMut("GLOBAL-MUT", []string{"tree", "io/newick", "io/nexus", "io/phyloxml", "io/nextstrain", "io/utils", "io/fileutils", "support", "hashmap", "acr", "asr", "mutils"}, "no data races; same results as the single-threaded computation")
	if ng < 300 {
		c.Undecided("GLOBAL-MUT", "scan-count", 0, fmt.Sprintf("only %d library functions seen", ng))
	}
	c.Decides("RLOCK-WRITE: a method that takes only the read lock of its receiver stores nothing reached from that receiver; COPYLOCK: no method or function takes a lock-holding struct (sync.Mutex / RWMutex / WaitGroup inside) by value")
	nr, _ := c.rlockWrite("RLOCK-WRITE", c.AllFuncs())
	c.Extra["read_locked_methods"] = nr
	c.Floor("RLOCK-WRITE", 1)
	c.Decides("LOCK-COVERS (go/cfg, must-analysis): in UpdateTaxaMoveArrays every write to an accumulator shared between the TBE workers (slice parameter not indexed by the call's own reference branch, pointer parameter) happens with the mutex parameter held on every path")
	c.lockCovers("LOCK-COVERS", c.Func("support", "", "UpdateTaxaMoveArrays"), "the result is independent of the number of threads")
	c.Floor("LOCK-COVERS", 2)
	nl, _ := c.copyLock("COPYLOCK")
	if nl < 5 {
		c.Undecided("COPYLOCK", "scan-count", 0, fmt.Sprintf("only %d methods on lock-holding types seen", nl))
	}
}

// workerErrFlow: in the worker closures of pkg.fn, the per-tree errors reach the record sent on
// the result channel, or the error variable the launcher returns.
func (c *Ctx) workerErrFlow(pkgRel, fn string, _ interface{}, clause string) {
	fi := c.Func(pkgRel, "", fn)
	if fi == nil {
		return
	}
	info := fi.Pkg.TypesInfo
	// the launcher's returned error variable(s): identifiers of error type in its return statements
	sinkVars := map[types.Object]bool{}
	ast.Inspect(fi.Decl.Body, func(n ast.Node) bool {
		if _, ok := n.(*ast.FuncLit); ok {
			return false
		}
		if ret, ok := n.(*ast.ReturnStmt); ok {
			for _, r := range ret.Results {
				if o := identObj(info, r); o != nil && isErrorType(o.Type()) {
					sinkVars[o] = true
				}
			}
		}
		return true
	})
	nlit := 0
	for _, fl := range funcLits(fi.Decl.Body) {
		// worker = closure that ranges over a channel of Trees
		var rs *ast.RangeStmt
		ast.Inspect(fl.Body, func(n ast.Node) bool {
			if r, ok := n.(*ast.RangeStmt); ok && rs == nil {
				if ch, ok := info.TypeOf(r.X).Underlying().(*types.Chan); ok && strings.HasSuffix(ch.Elem().String(), "tree.Trees") {
					rs = r
				}
			}
			return true
		})
		if rs == nil {
			continue
		}
		nlit++
		item := identObj(info, rs.Key)
		sp := &errFlowSpec{info: info, body: fl.Body, ftype: fl.Type, sinkVars: sinkVars}
		name := funcName(fi.Obj)
		// (1) designated calls
		for _, call := range callsIn(fl.Body, false) {
			g := calleeOf(info, call)
			if g == nil {
				continue
			}
			what, keyName := "", ""
			switch {
			case isRepoFunc(g, "tree", "Tree", "ReinitIndexes"):
				what = "ReinitIndexes on the input tree"
			case isRepoFunc(g, "tree", "Tree", "CompareTipIndexes"):
				what = "the taxon-set check CompareTipIndexes"
			case isRepoFunc(g, "tree", "EdgeIndex", "PutEdgeValue") && pkgRel == "support":
				what = "PutEdgeValue"
			case inRepo(g) && !g.Exported() && g.Pkg() == fi.Pkg.Types && returnsError(g) && c.reaches(g, func(h *types.Func) bool { return isRepoFunc(h, "tree", "Tree", "CompareTipIndexes") }, 2, map[*types.Func]bool{}):
				// the per-tree preparation extracted into a helper that returns the first error
				what = "the preparation helper " + g.Name() + " (ReinitIndexes, CompareTipIndexes)"
				keyName = "CompareTipIndexes"
				if c.reaches(g, func(h *types.Func) bool { return isRepoFunc(h, "tree", "Tree", "ReinitIndexes") }, 2, map[*types.Func]bool{}) {
					r0 := c.errFlow(sp, call)
					c.reportErrFlow("ERRFLOW", name+"#worker/ReinitIndexes", r0, "ReinitIndexes on the input tree (through "+g.Name()+")", clause)
				}
			case pkgRel == "support" && inRepo(g) && g.Pkg() == fi.Pkg.Types && returnsError(g) && c.reaches(g, func(h *types.Func) bool { return isRepoFunc(h, "tree", "EdgeIndex", "PutEdgeValue") }, 2, map[*types.Func]bool{}):
				// the indexing phase extracted into a helper that returns the first error of PutEdgeValue
				what = "PutEdgeValue (through " + g.Name() + ")"
				keyName = "PutEdgeValue"
			default:
				continue
			}
			r := c.errFlow(sp, call)
			if r.dropped && strings.HasPrefix(what, "PutEdgeValue") {
				continue
			}
			if keyName == "" {
				keyName = g.Name()
			}
			c.reportErrFlow("ERRFLOW", name+"#worker/"+keyName, r, what, clause)
		}
		// (2) the item's own Err
		if item != nil {
			c.itemErrFlow(sp, fl, item, name+"#worker/item.Err", clause)
		}
	}
	if nlit == 0 {
		c.Undecided("ERRFLOW", funcName(fi.Obj)+"#worker", fi.Decl.Pos(), "no worker closure ranging over a channel of tree.Trees found")
	}
}

// itemErrFlow: X.Err of the received item is either copied into an error variable whose flow is
// then checked, or tested with `X.Err != nil` in an if whose body delivers it.
func (c *Ctx) itemErrFlow(sp *errFlowSpec, fl *ast.FuncLit, item types.Object, key, clause string) {
	info := sp.info
	isItemErr := func(e ast.Expr) bool {
		sel, ok := unparen(e).(*ast.SelectorExpr)
		return ok && sel.Sel.Name == "Err" && identObj(info, sel.X) == item
	}
	found := false
	var firstPos = fl.Pos()
	ast.Inspect(fl.Body, func(n ast.Node) bool {
		switch x := n.(type) {
		case *ast.AssignStmt:
			if len(x.Lhs) == 1 && len(x.Rhs) == 1 && isItemErr(x.Rhs[0]) && !found {
				v := identObj(info, x.Lhs[0])
				if v != nil && sp.sinkVars[v] {
					return true // handled by the if-form below
				}
				found = true
				firstPos = x.Pos()
				// flow of v from this assignment: reuse errFlow by faking a call position
				r := c.errFlowFromAssign(sp, x, v)
				if r.delivered {
					c.OK("ERRFLOW", key, x.Pos(), "the received item's Err reaches the caller on every path where it is non-nil")
				} else {
					_, ln := c.pos(r.lostAt)
					c.Violation("ERRFLOW", key, x.Pos(), fmt.Sprintf("the error carried by the input item can be lost: %s at line %d", r.lostWhy, ln)).Clause = clause
				}
			}
		case *ast.IfStmt:
			if found {
				return true
			}
			tvSel, nonNil := func() (ast.Expr, bool) {
				be, ok := unparen(x.Cond).(*ast.BinaryExpr)
				if !ok {
					return nil, false
				}
				if isItemErr(be.X) && isNilIdent(info, be.Y) {
					return be.X, be.Op.String() == "!="
				}
				return nil, false
			}()
			if tvSel == nil || !nonNil {
				return true
			}
			found = true
			firstPos = x.Pos()
			// body must deliver item.Err: assignment to a sink variable / return / send mentioning it
			delivered := false
			ast.Inspect(x.Body, func(m ast.Node) bool {
				switch y := m.(type) {
				case *ast.AssignStmt:
					for i, l := range y.Lhs {
						if o := identObj(info, l); o != nil && sp.sinkVars[o] && i < len(y.Rhs) && isItemErr(y.Rhs[i]) {
							delivered = true
						}
					}
				case *ast.ReturnStmt:
					for _, r := range y.Results {
						if isItemErr(r) {
							delivered = true
						}
					}
				case *ast.SendStmt:
					ast.Inspect(y.Value, func(k ast.Node) bool {
						if e, ok := k.(ast.Expr); ok && isItemErr(e) {
							delivered = true
						}
						return true
					})
				case *ast.ExprStmt:
					// setErr(item.Err): a closure / helper storing its parameter into the sink variable
					if call, ok := y.X.(*ast.CallExpr); ok {
						for i, a := range call.Args {
							if isItemErr(a) && c.storesParamIntoSink(info, call, i, sp.sinkVars, map[types.Object]bool{}) {
								delivered = true
							}
						}
					}
				}
				return true
			})
			if delivered {
				c.OK("ERRFLOW", key, x.Pos(), "the received item's Err is handed to the caller in the branch that tests it")
			} else {
				c.Violation("ERRFLOW", key, x.Pos(), "the error carried by the input item is tested but not handed to the caller").Clause = clause
			}
		}
		return true
	})
	if !found {
		c.Violation("ERRFLOW", key, firstPos, "the worker never looks at the Err of the item it receives: a malformed input tree is dereferenced as nil").Clause = clause
	}
}

// errFlowFromAssign runs the ERRFLOW walk from an arbitrary assignment `v = expr`.
func (c *Ctx) errFlowFromAssign(sp *errFlowSpec, as *ast.AssignStmt, v types.Object) errFlowResult {
	// wrap: errFlow locates the assignment through the call; emulate by a synthetic call node is not
	// possible, so duplicate the minimal part: temporarily treat the RHS expression as the "call".
	fake := &ast.CallExpr{Fun: as.Rhs[0], Lparen: as.Rhs[0].End(), Rparen: as.Rhs[0].End()}
	saved := as.Rhs[0]
	as.Rhs[0] = fake
	defer func() { as.Rhs[0] = saved }()
	return c.errFlow(sp, fake)
}

// tbeErrFlow: TBE is sequential over bootstrap trees; errors go to its named result.
func (c *Ctx) tbeErrFlow(clause string) {
	fi := c.Func("support", "", "TBE")
	if fi == nil {
		return
	}
	info := fi.Pkg.TypesInfo
	sp := &errFlowSpec{info: info, body: fi.Decl.Body, ftype: fi.Decl.Type, sinkVars: map[types.Object]bool{}}
	for _, call := range callsIn(fi.Decl.Body, false) {
		g := calleeOf(info, call)
		if g == nil {
			continue
		}
		what := ""
		switch {
		case isRepoFunc(g, "tree", "Tree", "ReinitIndexes"):
			what = "ReinitIndexes on the bootstrap tree"
		case isRepoFunc(g, "tree", "Tree", "CompareTipIndexes"):
			what = "the taxon-set check CompareTipIndexes"
		default:
			continue
		}
		r := c.errFlow(sp, call)
		c.reportErrFlow("ERRFLOW", "support.TBE/"+g.Name(), r, what, clause)
	}
}

// hashMapLocks: every method of hashmap.HashMap that touches mapArray/capacity/total and can be
// reached from a worker goroutine (Value, PutValue) holds the map's lock for its whole body.
func (c *Ctx) hashMapLocks(rule string) {
	p := c.Pkg("hashmap")
	if p == nil {
		return
	}
	for _, name := range []string{"Value", "PutValue"} {
		fi := c.Func("hashmap", "HashMap", name)
		if fi == nil {
			continue
		}
		info := fi.Pkg.TypesInfo
		regions := lockRegions(info, fi.Decl.Body)
		bad := ""
		r := recvObj(info, fi.Decl)
		ast.Inspect(fi.Decl.Body, func(n ast.Node) bool {
			sel, ok := n.(*ast.SelectorExpr)
			if !ok || identObj(info, sel.X) != r {
				return true
			}
			switch sel.Sel.Name {
			case "mapArray", "capacity", "total":
				if !inRegions(sel.Pos(), regions) && bad == "" {
					_, ln := c.pos(sel.Pos())
					bad = fmt.Sprintf("%s at line %d", sel.Sel.Name, ln)
				}
			}
			return true
		})
		// callees that touch the fields (rehash) must be called inside the region
		for _, call := range callsIn(fi.Decl.Body, false) {
			if g := calleeOf(info, call); g != nil && inRepo(g) && g.Name() == "rehash" && !inRegions(call.Pos(), regions) && bad == "" {
				bad = "rehash() called outside the locked region"
			}
		}
		c.Check(bad == "", rule, "hashmap.HashMap."+name+"/locked", fi.Decl.Pos(), "all accesses to mapArray/capacity/total are inside the Lock…Unlock region", "access to "+bad+" is outside the map's lock: concurrent PutValue/Value race").Clause = "RWMutex-protected hash map"
	}
}

var _ = packages.NeedName

// returnsError: the last result of fn is of type error
func returnsError(fn *types.Func) bool {
	sig, ok := fn.Type().(*types.Signature)
	if !ok || sig.Results().Len() == 0 {
		return false
	}
	return isErrorType(sig.Results().At(sig.Results().Len() - 1).Type())
}
