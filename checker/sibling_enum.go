package main

import (
	"fmt"
	"go/ast"
	"go/token"
	"go/types"
	"os"
	"strings"
)

// checkEnumSiblings: enumeration API of package tree.
//   - each recursive helper calls itself and no other enumeration helper
//   - every append in InternalEdges+helper implies !Right().Tip(); in TipEdges+helper implies Right().Tip()
//   - the recursive descent itself is not filtered by the tip test (tips below inner nodes would be lost)
func (c *Ctx) checkEnumSiblings(rule string) {
	type enum struct {
		api, helper string
		filter      string // "", "internal", "tip"
	}
	enums := []enum{{"Edges", "edgesRecur", ""}, {"InternalEdges", "internalEdgesRecur", "internal"}, {"TipEdges", "tipEdgesRecur", "tip"},
		{"Nodes", "nodesRecur", ""}, {"Tips", "tipsRecur", "tipnode"}}
	helpers := map[string]bool{}
	for _, e := range enums {
		helpers[e.helper] = true
	}
	for _, e := range enums {
		api := c.Func("tree", "Tree", e.api)
		hl := c.Func("tree", "Tree", e.helper)
		if api == nil || hl == nil {
			continue
		}
		// API calls its own helper
		callsOwn, callsOther := false, ""
		for _, call := range callsIn(api.Decl.Body, true) {
			if tgt := c.enumTarget(calleeOf(api.Pkg.TypesInfo, call), helpers); tgt != "" {
				if tgt == e.helper {
					callsOwn = true
				} else {
					callsOther = tgt
				}
			}
		}
		c.Check(callsOwn && callsOther == "", rule, "tree.Tree."+e.api+"/uses-own-helper", api.Decl.Pos(), "calls "+e.helper+" only",
			fmt.Sprintf("%s must enumerate through %s only (calls own helper: %v, other helper: %q)", e.api, e.helper, callsOwn, callsOther)).Clause = "node, tip and branch enumerations agree with each other"
		// helper recurses into itself only
		self, other := false, ""
		var otherPos token.Pos
		for _, call := range callsIn(hl.Decl.Body, true) {
			if tgt := c.enumTarget(calleeOf(hl.Pkg.TypesInfo, call), helpers); tgt != "" {
				if tgt == e.helper {
					self = true
				} else {
					other = tgt
					otherPos = call.Pos()
				}
			}
		}
		if self && other == "" {
			c.OK(rule, "tree.Tree."+e.helper+"/self-recursion", hl.Decl.Pos(), "recurses into itself only")
		} else {
			p := hl.Decl.Pos()
			if otherPos.IsValid() {
				p = otherPos
			}
			what := "does not recurse into itself"
			if other != "" {
				what = "descends through " + other + ", whose filter is different"
			}
			c.Violation(rule, "tree.Tree."+e.helper+"/self-recursion", p, fmt.Sprintf("%s %s: below the first level %s() returns what %s selects, so branches = internal + external no longer holds", e.helper, what, e.api, other)).Clause = "all branches = internal + external ones"
		}
		// filters
		if e.filter == "" {
			continue
		}
		for _, fi := range []*FuncInfo{api, hl} {
			info := fi.Pkg.TypesInfo
			n := 0
			ast.Inspect(fi.Decl.Body, func(nd ast.Node) bool {
				call, ok := nd.(*ast.CallExpr)
				if !ok {
					return true
				}
				id, ok := call.Fun.(*ast.Ident)
				if !ok || id.Name != "append" || info.Uses[id] != types.Universe.Lookup("append") || len(call.Args) != 2 {
					return true
				}
				n++
				elem := c.canon(info, call.Args[1], nil)
				conds, okc := c.pathConds(info, fi.Decl.Body, call, true)
				key := fmt.Sprintf("%s/append(%s)#%d", funcName(fi.Obj), elem, n)
				if !okc {
					c.Undecided(rule, key, call.Pos(), "guard of the append has a shape the path-condition extractor does not understand")
					return true
				}
				code := c.condsToBexpr(info, conds, nil)
				var need *bexpr
				switch e.filter {
				case "internal":
					need = bNot(bCmp("len("+elem+".right.neigh)", token.EQL, "1"))
				case "tip":
					need = bCmp("len("+elem+".right.neigh)", token.EQL, "1")
				case "tipnode":
					need = bCmp("len("+elem+".neigh)", token.EQL, "1")
				}
				code = c.inlineTip(code)
				ok2, wit, _, err := gfImplies(code, need)
				if err != nil {
					c.Undecided(rule, key, call.Pos(), err.Error())
				} else if ok2 {
					c.OK(rule, key, call.Pos(), "append guarded by "+code.String()+" ⇒ "+need.String())
				} else {
					c.Violation(rule, key, call.Pos(), fmt.Sprintf("%s appends %s without the %s filter (guard %s; %s)", fi.Obj.Name(), elem, e.filter, code.String(), wit)).Clause = "all branches = internal + external ones"
				}
				return true
			})
			// descent not filtered by the tip test of the element itself (edges only)
			if fi == hl && (e.filter == "internal" || e.filter == "tip") {
				for _, call := range callsIn(fi.Decl.Body, true) {
					if fn := calleeOf(info, call); fn == fi.Obj {
						conds, okc := c.pathConds(info, fi.Decl.Body, call, true)
						if !okc {
							continue
						}
						code := c.inlineTip(c.condsToBexpr(info, conds, nil))
						// the descent argument
						arg := c.canon(info, call.Args[0], nil)
						tipAtom := "len(" + arg + ".right.neigh)"
						terms, atoms := map[string]bool{}, map[string]bool{}
						code.collect(terms, atoms)
						key := funcName(fi.Obj) + "/descent(" + arg + ")"
						if e.filter == "tip" && terms[tipAtom] {
							c.Violation(rule, key, call.Pos(), "the recursive descent of tipEdgesRecur is filtered by the tip test of the branch it descends into: tip branches below inner branches are lost").Clause = "all branches = internal + external ones"
						} else {
							c.OK(rule, key, call.Pos(), "descent guard: "+code.String())
						}
					}
				}
			}
		}
	}
}

// enumTarget: the enumeration helper a call ends in: the callee itself, or, for an unexported
// function of the package that is not an enumeration helper and calls exactly one of them (a step
// extracted from the walk, e.g. "append this branch, then walk below it"), that one.
func (c *Ctx) enumTarget(fn *types.Func, helpers map[string]bool) string {
	if fn == nil || !inRepo(fn) {
		return ""
	}
	if helpers[fn.Name()] {
		return fn.Name()
	}
	gi := c.FuncOfObj(fn)
	if fn.Exported() || gi == nil || gi.Decl.Body == nil || !strings.HasSuffix(fn.Pkg().Path(), "/tree") {
		return ""
	}
	found := map[string]bool{}
	for _, call := range callsIn(gi.Decl.Body, true) {
		if g := calleeOf(gi.Pkg.TypesInfo, call); g != nil && inRepo(g) && helpers[g.Name()] {
			found[g.Name()] = true
		}
	}
	if len(found) == 1 {
		for k := range found {
			return k
		}
	}
	return ""
}

// enumDescentGuards: the three branch enumerations must descend under the same condition on the
// branch they are called with (they differ only in what they append).
func (c *Ctx) enumDescentGuards(rule string) {
	ref := ""
	var refB *bexpr
	for _, h := range []string{"edgesRecur", "internalEdgesRecur", "tipEdgesRecur"} {
		fi := c.Func("tree", "Tree", h)
		if fi == nil {
			continue
		}
		info := fi.Pkg.TypesInfo
		p0 := paramObj(info, fi.Decl, 0)
		var guard []string
		var guardB []*bexpr
		for _, call := range callsIn(fi.Decl.Body, true) {
			if c.enumTarget(calleeOf(info, call), map[string]bool{"edgesRecur": true, "internalEdgesRecur": true, "tipEdgesRecur": true}) != h {
				continue
			}
			conds, okc := c.pathConds(info, fi.Decl.Body, call, false)
			if !okc {
				c.Undecided(rule, "tree.Tree."+h+"/descent-guard", call.Pos(), "guard shape not understood")
				continue
			}
			// range variables of the function
			loopVars := map[types.Object]bool{}
			ast.Inspect(fi.Decl.Body, func(n ast.Node) bool {
				if rs, ok := n.(*ast.RangeStmt); ok {
					for _, e := range []ast.Expr{rs.Key, rs.Value} {
						if e != nil {
							if ob := identObj(info, e); ob != nil {
								loopVars[ob] = true
							}
						}
					}
				}
				if fs, ok := n.(*ast.ForStmt); ok {
					if as, ok := fs.Init.(*ast.AssignStmt); ok {
						for _, l := range as.Lhs {
							if ob := identObj(info, l); ob != nil {
								loopVars[ob] = true
							}
						}
					}
				}
				return true
			})
			// locals that only name a value reached from the parameter (`below := edge.right`) read
			// as that value; loop variables are marked so that conditions on them are told apart
			oo := &canonOpts{subst: map[types.Object]string{p0: "$P"}}
			// a local defined from a loop variable (`child := cur.br[i]`) is an element too
			for changed := true; changed; {
				changed = false
				ast.Inspect(fi.Decl.Body, func(n ast.Node) bool {
					as, ok := n.(*ast.AssignStmt)
					if !ok || as.Tok != token.DEFINE || len(as.Lhs) != len(as.Rhs) {
						return true
					}
					for i, l := range as.Lhs {
						ob := identObj(info, l)
						if ob == nil || loopVars[ob] {
							continue
						}
						for lv := range loopVars {
							if mentions(info, as.Rhs[i], lv) {
								loopVars[ob] = true
								changed = true
								break
							}
						}
					}
					return true
				})
			}
			for lv := range loopVars {
				oo.subst[lv] = "$LOOPVAR"
			}
			for k, v := range c.localExpansionsWith(info, fi.Decl.Body, oo).subst {
				if _, has := oo.subst[k]; !has {
					oo.subst[k] = v
				}
			}
			for _, cd := range conds {
				if cd.Expr == nil {
					continue
				}
				txt := c.canon(info, cd.Expr, oo)
				if !strings.Contains(txt, "$P") || strings.Contains(txt, "$LOOPVAR") {
					continue
				}
				kb := c.inlineNneigh(c.inlineTip(c.toBexpr(info, cd.Expr, oo)))
				if cd.Neg {
					kb = bNot(kb)
				}
				guard = append(guard, kb.String())
				guardB = append(guardB, kb)
			}
		}
		g := strings.Join(guard, " && ")
		gb := bAnd(guardB...)
		if h == "edgesRecur" {
			ref, refB = g, gb
			c.OK(rule, "tree.Tree."+h+"/descent-guard", fi.Decl.Pos(), "descends below a branch iff "+g)
			continue
		}
		same := g == ref
		if !same && refB != nil {
			eq, wit, _, err := gfEquiv(gb, refB)
			if err == nil && eq {
				same = true
			} else if os.Getenv("GTVERIF_DEBUG") != "" {
				fmt.Fprintln(os.Stderr, "descent-guard equiv:", gb, "vs", refB, eq, wit, err)
			}
		}
		c.Check(same, rule, "tree.Tree."+h+"/descent-guard", fi.Decl.Pos(), "same descent guard as edgesRecur: "+g,
			fmt.Sprintf("%s descends below a branch under `%s` while edgesRecur descends under `%s`: on trees where the two differ (e.g. a node of degree 2 left by a re-rooting) the enumerations disagree", h, g, ref)).Clause = "all branches = internal + external ones"
	}
}

// enumNodeDescentGuards: Tips() must walk exactly the nodes Nodes() walks: the conditions on the
// recursive call of tipsRecur that depend only on the current node are those of nodesRecur (none
// today). A tip test on the descent (`append; return` for a tip) hides everything below a root
// that has a single neighbour.
func (c *Ctx) enumNodeDescentGuards(rule string) {
	guardOf := func(h string) (string, *FuncInfo, bool) {
		fi := c.Func("tree", "Tree", h)
		if fi == nil {
			return "", nil, false
		}
		info := fi.Pkg.TypesInfo
		cur := paramObj(info, fi.Decl, 1)
		o := &canonOpts{subst: map[types.Object]string{cur: "$CUR"}}
		var guard []string
		for _, call := range callsIn(fi.Decl.Body, true) {
			if calleeOf(info, call) != fi.Obj {
				continue
			}
			conds, okc := c.pathConds(info, fi.Decl.Body, call, false)
			if !okc {
				return "", fi, false
			}
			loopVars := map[types.Object]bool{}
			ast.Inspect(fi.Decl.Body, func(n ast.Node) bool {
				if rs, ok := n.(*ast.RangeStmt); ok {
					for _, e := range []ast.Expr{rs.Key, rs.Value} {
						if e != nil {
							if ob := identObj(info, e); ob != nil {
								loopVars[ob] = true
							}
						}
					}
				}
				if fs, ok := n.(*ast.ForStmt); ok {
					if as, ok := fs.Init.(*ast.AssignStmt); ok {
						for _, l := range as.Lhs {
							if ob := identObj(info, l); ob != nil {
								loopVars[ob] = true
							}
						}
					}
				}
				return true
			})
			for _, cd := range conds {
				if cd.Expr == nil || !mentions(info, cd.Expr, cur) {
					continue
				}
				only := true
				for lv := range loopVars {
					if mentions(info, cd.Expr, lv) {
						only = false
					}
				}
				// `cur == nil` (start at the root) is not a filter
				if _, _, isNil := nilTest(info, cd.Expr); isNil || !only {
					continue
				}
				k := c.inlineNneigh(c.inlineTip(c.toBexpr(info, cd.Expr, o))).String()
				if cd.Neg {
					k = "!" + k
				}
				guard = append(guard, k)
			}
		}
		return strings.Join(guard, " && "), fi, true
	}
	ref, _, ok1 := guardOf("nodesRecur")
	g, fi, ok2 := guardOf("tipsRecur")
	if fi == nil {
		return
	}
	if !ok1 || !ok2 {
		c.Undecided(rule, "tree.Tree.tipsRecur/descent-guard", fi.Decl.Pos(), "guard shape not understood")
		return
	}
	c.Check(g == ref, rule, "tree.Tree.tipsRecur/descent-guard", fi.Decl.Pos(), "Tips() walks exactly the nodes Nodes() walks (descent guard: `"+g+"`)",
		fmt.Sprintf("tipsRecur descends under `%s` while nodesRecur descends under `%s`: when the starting node has a single neighbour the tip enumeration stops at it and the tips below are lost", g, ref)).Clause = "node, tip and branch enumerations agree with each other"
}

// inlineTip rewrites the atom `X.Tip()` into the comparison len(X.neigh) == 1 it stands for, so that
// `e.Right().Tip()` and `len(e.right.neigh) == 1` meet. Tip() is checked to be exactly that.
func (c *Ctx) inlineTip(b *bexpr) *bexpr {
	if b == nil {
		return nil
	}
	switch b.op {
	case "and", "or":
		return &bexpr{op: b.op, l: c.inlineTip(b.l), r: c.inlineTip(b.r)}
	case "not":
		return bNot(c.inlineTip(b.l))
	case "atom":
		const suf = ".Tip()"
		if len(b.atom) > len(suf) && b.atom[len(b.atom)-len(suf):] == suf && c.tipIsLenOne() {
			return bCmp("len("+b.atom[:len(b.atom)-len(suf)]+".neigh)", token.EQL, "1")
		}
	case "cmp":
		// len(x.neigh) > 1  was normalised to >= 2 ; keep
	}
	return b
}

var tipChecked, tipOK bool

// tipIsLenOne: Node.Tip() is `return len(n.neigh) == 1`.
func (c *Ctx) tipIsLenOne() bool {
	if tipChecked {
		return tipOK
	}
	tipChecked = true
	fi := c.FuncOpt("tree", "Node", "Tip")
	if fi == nil || len(fi.Decl.Body.List) != 1 {
		return false
	}
	ret, ok := fi.Decl.Body.List[0].(*ast.ReturnStmt)
	if !ok || len(ret.Results) != 1 {
		return false
	}
	r := recvObj(fi.Pkg.TypesInfo, fi.Decl)
	if r == nil {
		return false
	}
	tipOK = c.canon(fi.Pkg.TypesInfo, ret.Results[0], nil) == "(1 == len("+r.Name()+".neigh))"
	return tipOK
}

// orientRule: a branch created by ConnectNodes(parent, child) points from parent to child. Making
// `child` the root in the same block, with nothing re-orienting afterwards, leaves a branch pointing
// into the root.
func (c *Ctx) orientRule(rule string) int {
	n := 0
	reorients := map[string]bool{"ReorderEdges": true, "reroot_nocheck": true, "Reroot": true, "Inverse": true, "RerootFirst": true}
	for _, fi := range c.AllFuncs("tree") {
		info := fi.Pkg.TypesInfo
		o := c.localExpansions(info, fi.Decl.Body)
		var lists [][]ast.Stmt
		ast.Inspect(fi.Decl.Body, func(m ast.Node) bool {
			switch x := m.(type) {
			case *ast.BlockStmt:
				lists = append(lists, x.List)
			case *ast.CaseClause:
				lists = append(lists, x.Body)
			}
			return true
		})
		for _, list := range lists {
			type conn struct {
				parent, child string
				pos           token.Pos
			}
			for _, s := range list {
				var sr *ast.CallExpr
				if es, ok := s.(*ast.ExprStmt); ok {
					if cl, ok := es.X.(*ast.CallExpr); ok && isRepoFunc(calleeOf(info, cl), "tree", "Tree", "SetRoot") && len(cl.Args) == 1 {
						sr = cl
					}
				}
				if sr == nil {
					continue
				}
				r := c.canon(info, sr.Args[0], o)
				// every ConnectNodes earlier in this list, nested blocks included
				var conns []conn
				for _, p := range list {
					if p.Pos() >= s.Pos() {
						break
					}
					for _, cl := range callsIn(p, false) {
						if isRepoFunc(calleeOf(info, cl), "tree", "Tree", "ConnectNodes") && len(cl.Args) == 2 {
							conns = append(conns, conn{c.canon(info, cl.Args[0], o), c.canon(info, cl.Args[1], o), cl.Pos()})
						}
					}
				}
				for _, cn := range conns {
					n++
					key := fmt.Sprintf("%s/ConnectNodes(%s,%s)+SetRoot(%s)", funcName(fi.Obj), cn.parent, cn.child, r)
					if cn.child != r {
						// the root may be held in a local that takes several values (newroot := n1; if .. { newroot = n2 }):
						// the values it can have where this branch is created, given the conditions on that path
						may := false
						if rv := identObj(info, sr.Args[0]); rv != nil {
							vals := map[string]bool{}
							nAss := 0
							forAssignsTo(info, fi.Decl.Body, rv, func(rhs ast.Expr, multi, incdec bool) {
								nAss++
								if rhs != nil && !multi {
									vals[c.canon(info, rhs, o)] = true
								}
							})
							if nAss > 1 && vals[cn.child] {
								if conds, okc := c.pathConds(info, fi.Decl.Body, connNode(fi.Decl.Body, cn.pos), false); okc {
									for _, cd := range flattenConds(conds) {
										be, ok := unparen(cd.Expr).(*ast.BinaryExpr)
										if cd.Expr == nil || !ok || (be.Op != token.EQL && be.Op != token.NEQ) {
											continue
										}
										for _, side := range [][2]ast.Expr{{be.X, be.Y}, {be.Y, be.X}} {
											if identObj(info, side[0]) != rv {
												continue
											}
											v := c.canon(info, side[1], o)
											eq := (be.Op == token.EQL) != cd.Neg
											if eq {
												for k := range vals {
													if k != v {
														delete(vals, k)
													}
												}
											} else {
												delete(vals, v)
											}
										}
									}
								}
								may = vals[cn.child]
							}
						}
						if !may {
							c.OK(rule, key, sr.Pos(), "the new root is not the child end of the branch just created")
							continue
						}
					}
					later := false
					for _, c2 := range callsIn(fi.Decl.Body, false) {
						if g := calleeOf(info, c2); g != nil && reorients[g.Name()] && c2.Pos() > sr.Pos() {
							// the re-orientation must lie on the paths of the ConnectNodes: its own
							// conditions follow from those under which the branch was created
							a, ok1 := c.pathConds(info, fi.Decl.Body, connNode(fi.Decl.Body, cn.pos), false)
							b, ok2 := c.pathConds(info, fi.Decl.Body, c2, false)
							boolOnly := func(cs []cond) []cond {
								var out []cond
								for _, cd := range cs {
									if cd.Expr == nil {
										continue
									}
									if _, isId := unparen(cd.Expr).(*ast.Ident); isId {
										out = append(out, cd)
									} else if u, isU := unparen(cd.Expr).(*ast.UnaryExpr); isU {
										if _, isId := unparen(u.X).(*ast.Ident); isId {
											out = append(out, cd)
										}
									}
								}
								return out
							}
							if ok1 && ok2 {
								imp, _, _, err := gfImplies(c.condsToBexpr(info, boolOnly(a), nil), c.condsToBexpr(info, boolOnly(b), nil))
								if err == nil && !imp {
									continue
								}
							}
							later = true
						}
					}
					if later {
						c.OK(rule, key, sr.Pos(), "re-oriented afterwards")
					} else {
						c.Violation(rule, key, cn.pos, fmt.Sprintf("ConnectNodes(%s, %s) creates a branch pointing from %s to %s, and %s is then made the root with nothing re-orienting the branches: a branch points into the root", cn.parent, cn.child, cn.parent, cn.child, r)).Clause = "every branch pointing away from the root"
					}
				}
			}
		}
	}
	return n
}

// connNode finds the call expression at pos.
func connNode(body ast.Node, pos token.Pos) ast.Node {
	var out ast.Node = body
	ast.Inspect(body, func(n ast.Node) bool {
		if cl, ok := n.(*ast.CallExpr); ok && cl.Pos() == pos {
			out = cl
		}
		return true
	})
	return out
}

// orientCurrentRule: a branch is flipped (Edge.Inverse) only under a condition that reads the
// current orientation of a branch (left/right end, directly, through the getters, or through a
// helper of the package that reads them). A flip guarded by anything else (a flag remembered from an
// earlier operation, a counter) follows a state the tree may have left since: rerooting between an
// NNI and its undo then leaves a branch pointing into the root.
func (c *Ctx) orientCurrentRule(rule string) int {
	n := 0
	for _, fi := range c.AllFuncs("tree") {
		if fi.Decl.Body == nil || (fi.Obj.Name() == "Inverse") {
			continue
		}
		info := fi.Pkg.TypesInfo
		o := c.localExpansions(info, fi.Decl.Body)
		k := 0
		for _, cl := range callsIn(fi.Decl.Body, true) {
			if !isRepoFunc(calleeOf(info, cl), "tree", "Edge", "Inverse") {
				continue
			}
			k++
			n++
			key := fmt.Sprintf("%s/Inverse#%d", funcName(fi.Obj), k)
			conds, ok := c.pathConds(info, fi.Decl.Body, cl, false)
			if !ok {
				c.Undecided(rule, key, cl.Pos(), "conditions on the path to the flip not recognised")
				continue
			}
			reads := false
			for _, cd := range flattenConds(conds) {
				if cd.Expr == nil {
					continue
				}
				if c.readsOrientation(info, cd.Expr, o, 2) {
					reads = true
				} else if rhs := storedJustBefore(c, info, fi.Decl.Body, cd.Expr, o); rhs != nil && c.readsOrientation(info, rhs, o, 2) {
					// `x.f = <test>; if x.f {flip}`: the remembered value is the one just computed
					reads = true
				}
			}
			if reads {
				c.OK(rule, key, cl.Pos(), "the flip is guarded by a test of the branch's current ends")
			} else {
				c.Violation(rule, key, cl.Pos(), "the branch is flipped under a condition that does not read the current ends of any branch (left/right): if the tree was re-oriented since that condition's inputs were computed, the flip leaves a branch pointing into the root").Clause = "every branch pointing away from the root"
			}
		}
	}
	return n
}

// readsOrientation: the expression (locals expanded) mentions the left/right end of an Edge, or
// calls a function of the repo whose body does (depth levels of calls followed).
func (c *Ctx) readsOrientation(info *types.Info, e ast.Expr, o *canonOpts, depth int) bool {
	s := c.canon(info, e, o)
	for _, pat := range []string{".right", ".left"} {
		for i := strings.Index(s, pat); i >= 0; {
			j := i + len(pat)
			if j >= len(s) || !(s[j] == '_' || s[j] >= 'a' && s[j] <= 'z' || s[j] >= 'A' && s[j] <= 'Z' || s[j] >= '0' && s[j] <= '9') {
				return true
			}
			nx := strings.Index(s[j:], pat)
			if nx < 0 {
				break
			}
			i = j + nx
		}
	}
	if depth == 0 {
		return false
	}
	found := false
	c.indexDecls()
	for _, cl := range callsIn(e, true) {
		g := calleeOf(info, cl)
		if g == nil {
			continue
		}
		fd, pk := c.declOf[g], c.declPkg[g]
		if fd == nil || fd.Body == nil {
			continue
		}
		ast.Inspect(fd.Body, func(m ast.Node) bool {
			if x, ok := m.(ast.Expr); ok && !found {
				switch x.(type) {
				case *ast.SelectorExpr, *ast.CallExpr:
					if c.readsOrientation(pk.TypesInfo, x, nil, depth-1) {
						found = true
					}
					return false
				}
			}
			return !found
		})
	}
	return found
}

// storedJustBefore: the condition is a field (or its negation) assigned by the statement directly
// preceding the `if` that tests it, in the same statement list; returns what was assigned.
func storedJustBefore(c *Ctx, info *types.Info, body *ast.BlockStmt, e ast.Expr, o *canonOpts) ast.Expr {
	e = unparen(e)
	if u, ok := e.(*ast.UnaryExpr); ok && u.Op == token.NOT {
		e = unparen(u.X)
	}
	if _, ok := e.(*ast.SelectorExpr); !ok {
		return nil
	}
	want := c.canon(info, e, o)
	var out ast.Expr
	scan := func(list []ast.Stmt) {
		for i, s := range list {
			is, ok := s.(*ast.IfStmt)
			if !ok || i == 0 || !(is.Cond.Pos() <= e.Pos() && e.End() <= is.Cond.End()) {
				continue
			}
			if as, ok := list[i-1].(*ast.AssignStmt); ok && len(as.Lhs) == len(as.Rhs) {
				for k, l := range as.Lhs {
					if c.canon(info, l, o) == want {
						out = as.Rhs[k]
					}
				}
			}
		}
	}
	ast.Inspect(body, func(m ast.Node) bool {
		switch x := m.(type) {
		case *ast.BlockStmt:
			scan(x.List)
		case *ast.CaseClause:
			scan(x.Body)
		}
		return true
	})
	return out
}
