package main

import (
	"fmt"
	"go/ast"
	"go/token"
	"go/types"
)

// checkEnumSiblings: enumeration API of package tree.
//   - each recursive helper calls itself and no other enumeration helper
//   - every append in InternalEdges+helper implies !Right().Tip(); in TipEdges+helper implies Right().Tip()
//   - the recursive descent itself is not filtered by the tip test (tips below inner nodes would be lost)
func (c *Ctx) checkEnumSiblings(rule string) {
	type enum struct {
		api, helper string
		filter      string // "", "internal", "tip"
	}
	enums := []enum{{"Edges", "edgesRecur", ""}, {"InternalEdges", "internalEdgesRecur", "internal"}, {"TipEdges", "tipEdgesRecur", "tip"},
		{"Nodes", "nodesRecur", ""}, {"Tips", "tipsRecur", "tipnode"}}
	helpers := map[string]bool{}
	for _, e := range enums {
		helpers[e.helper] = true
	}
	for _, e := range enums {
		api := c.Func("tree", "Tree", e.api)
		hl := c.Func("tree", "Tree", e.helper)
		if api == nil || hl == nil {
			continue
		}
		// API calls its own helper
		callsOwn, callsOther := false, ""
		for _, call := range callsIn(api.Decl.Body, true) {
			if fn := calleeOf(api.Pkg.TypesInfo, call); fn != nil && inRepo(fn) && helpers[fn.Name()] {
				if fn.Name() == e.helper {
					callsOwn = true
				} else {
					callsOther = fn.Name()
				}
			}
		}
		c.Check(callsOwn && callsOther == "", rule, "tree.Tree."+e.api+"/uses-own-helper", api.Decl.Pos(), "calls "+e.helper+" only",
			fmt.Sprintf("%s must enumerate through %s only (calls own helper: %v, other helper: %q)", e.api, e.helper, callsOwn, callsOther)).Clause = "node, tip and branch enumerations agree with each other"
		// helper recurses into itself only
		self, other := false, ""
		var otherPos token.Pos
		for _, call := range callsIn(hl.Decl.Body, true) {
			if fn := calleeOf(hl.Pkg.TypesInfo, call); fn != nil && inRepo(fn) && helpers[fn.Name()] {
				if fn == hl.Obj {
					self = true
				} else {
					other = fn.Name()
					otherPos = call.Pos()
				}
			}
		}
		if self && other == "" {
			c.OK(rule, "tree.Tree."+e.helper+"/self-recursion", hl.Decl.Pos(), "recurses into itself only")
		} else {
			p := hl.Decl.Pos()
			if otherPos.IsValid() {
				p = otherPos
			}
			what := "does not recurse into itself"
			if other != "" {
				what = "descends through " + other + ", whose filter is different"
			}
			c.Violation(rule, "tree.Tree."+e.helper+"/self-recursion", p, fmt.Sprintf("%s %s: below the first level %s() returns what %s selects, so branches = internal + external no longer holds", e.helper, what, e.api, other)).Clause = "all branches = internal + external ones"
		}
		// filters
		if e.filter == "" {
			continue
		}
		for _, fi := range []*FuncInfo{api, hl} {
			info := fi.Pkg.TypesInfo
			n := 0
			ast.Inspect(fi.Decl.Body, func(nd ast.Node) bool {
				call, ok := nd.(*ast.CallExpr)
				if !ok {
					return true
				}
				id, ok := call.Fun.(*ast.Ident)
				if !ok || id.Name != "append" || info.Uses[id] != types.Universe.Lookup("append") || len(call.Args) != 2 {
					return true
				}
				n++
				elem := c.canon(info, call.Args[1], nil)
				conds, okc := c.pathConds(info, fi.Decl.Body, call, true)
				key := fmt.Sprintf("%s/append(%s)#%d", funcName(fi.Obj), elem, n)
				if !okc {
					c.Undecided(rule, key, call.Pos(), "guard of the append has a shape the path-condition extractor does not understand")
					return true
				}
				code := c.condsToBexpr(info, conds, nil)
				var need *bexpr
				switch e.filter {
				case "internal":
					need = bNot(bCmp("len("+elem+".right.neigh)", token.EQL, "1"))
				case "tip":
					need = bCmp("len("+elem+".right.neigh)", token.EQL, "1")
				case "tipnode":
					need = bCmp("len("+elem+".neigh)", token.EQL, "1")
				}
				code = c.inlineTip(code)
				ok2, wit, _, err := gfImplies(code, need)
				if err != nil {
					c.Undecided(rule, key, call.Pos(), err.Error())
				} else if ok2 {
					c.OK(rule, key, call.Pos(), "append guarded by "+code.String()+" ⇒ "+need.String())
				} else {
					c.Violation(rule, key, call.Pos(), fmt.Sprintf("%s appends %s without the %s filter (guard %s; %s)", fi.Obj.Name(), elem, e.filter, code.String(), wit)).Clause = "all branches = internal + external ones"
				}
				return true
			})
			// descent not filtered by the tip test of the element itself (edges only)
			if fi == hl && (e.filter == "internal" || e.filter == "tip") {
				for _, call := range callsIn(fi.Decl.Body, true) {
					if fn := calleeOf(info, call); fn == fi.Obj {
						conds, okc := c.pathConds(info, fi.Decl.Body, call, true)
						if !okc {
							continue
						}
						code := c.inlineTip(c.condsToBexpr(info, conds, nil))
						// the descent argument
						arg := c.canon(info, call.Args[0], nil)
						tipAtom := "len(" + arg + ".right.neigh)"
						terms, atoms := map[string]bool{}, map[string]bool{}
						code.collect(terms, atoms)
						key := funcName(fi.Obj) + "/descent(" + arg + ")"
						if e.filter == "tip" && terms[tipAtom] {
							c.Violation(rule, key, call.Pos(), "the recursive descent of tipEdgesRecur is filtered by the tip test of the branch it descends into: tip branches below inner branches are lost").Clause = "all branches = internal + external ones"
						} else {
							c.OK(rule, key, call.Pos(), "descent guard: "+code.String())
						}
					}
				}
			}
		}
	}
}

// inlineTip rewrites the atom `X.Tip()` into the comparison len(X.neigh) == 1 it stands for, so that
// `e.Right().Tip()` and `len(e.right.neigh) == 1` meet. Tip() is checked to be exactly that.
func (c *Ctx) inlineTip(b *bexpr) *bexpr {
	if b == nil {
		return nil
	}
	switch b.op {
	case "and", "or":
		return &bexpr{op: b.op, l: c.inlineTip(b.l), r: c.inlineTip(b.r)}
	case "not":
		return bNot(c.inlineTip(b.l))
	case "atom":
		const suf = ".Tip()"
		if len(b.atom) > len(suf) && b.atom[len(b.atom)-len(suf):] == suf && c.tipIsLenOne() {
			return bCmp("len("+b.atom[:len(b.atom)-len(suf)]+".neigh)", token.EQL, "1")
		}
	case "cmp":
		// len(x.neigh) > 1  was normalised to >= 2 ; keep
	}
	return b
}

var tipChecked, tipOK bool

// tipIsLenOne: Node.Tip() is `return len(n.neigh) == 1`.
func (c *Ctx) tipIsLenOne() bool {
	if tipChecked {
		return tipOK
	}
	tipChecked = true
	fi := c.FuncOpt("tree", "Node", "Tip")
	if fi == nil || len(fi.Decl.Body.List) != 1 {
		return false
	}
	ret, ok := fi.Decl.Body.List[0].(*ast.ReturnStmt)
	if !ok || len(ret.Results) != 1 {
		return false
	}
	r := recvObj(fi.Pkg.TypesInfo, fi.Decl)
	if r == nil {
		return false
	}
	tipOK = c.canon(fi.Pkg.TypesInfo, ret.Results[0], nil) == "(1 == len("+r.Name()+".neigh))"
	return tipOK
}
