package main

import (
	"fmt"
	"go/token"
	"os"

	"golang.org/x/tools/go/packages"
)

func init() { props["C03"] = checkC03 }

func checkC03(c *Ctx) {
	c.Decides("PAIR: every adjacency edit in package tree (delNeighbor, addChild, in-place neigh[k]/br[k] stores, left/right stores) is two-sided and re-targets the branch, on canonical expressions within one function; primitives addChild/delNeighbor/ConnectNodes/Inverse keep neigh/br parallel and set both ends")
	c.Decides("SIBLING: the enumerations Edges/InternalEdges/TipEdges (and Nodes/Tips) descend through a helper that recurses into itself only, with the tip filter applied to what is appended and never to the descent")
	c.DoesNotDecide("that the right nodes are connected (connectivity, acyclicity, the three cases of removeTip, the condition of ReorderEdges); the Newick text of the result (C01)")
	c.checkPairPrimitives("PAIR")
	n := c.checkPair("PAIR", nil)
	c.Extra["adjacency_edit_sites"] = n
	c.Floor("PAIR", 40)
	c.checkEnumSiblings("SIBLING")
	c.enumDescentGuards("SIBLING")
	c.enumNodeDescentGuards("SIBLING")
	c.Floor("SIBLING", 8)
	c.Decides("ORIENT: a node made the root in the block that attaches it as the child end of a new branch (ConnectNodes(parent, child); SetRoot(child)) is followed by a re-orientation")
	c.orientRule("ORIENT")
	c.Floor("ORIENT", 4)
	c.Decides("ENDS: where an orientation test re-targets one end of a branch, the other outcome of the test re-targets the other end of the same branch to the same node (NNI apply/undo)")
	c.endsBothOrientations("ENDS", c.AllFuncs("tree"), "symmetric adjacency and every branch pointing away from the root")
	c.Floor("ENDS", 1)
	c.Decides("SLOT-BY-SEARCH: no in-place replacement of a neighbour or branch of a node at a constant position (the slot of a given neighbour is found by searching for it)")
	nss, _ := c.slotBySearch("SLOT-BY-SEARCH", c.AllFuncs("tree"), "symmetric adjacency")
	if nss < 10 {
		c.Undecided("SLOT-BY-SEARCH", "scan-count", 0, fmt.Sprintf("only %d in-place stores into neigh/br seen", nss))
	}
	c.Decides("USE-AFTER-DEL: in package tree a branch variable obtained from node x (x.br[i], x.Edges()[i], x.ParentEdge(), range over x.br) is not used after t.delNode(x), which sets both ends of every branch of x to nil (unconnectNode is the helper that keeps the branches)")
	nud, _ := c.useAfterDel("USE-AFTER-DEL", c.AllFuncs("tree"), "every branch links a parent to a child (both ends set)")
	c.Extra["delnode_sites"] = nud
	c.Floor("USE-AFTER-DEL", 5)
	c.Decides("INDEX-OWNER: in package tree a position obtained from A.NodeIndex(B) / A.EdgeIndex(e) indexes A's own neigh/br slices only")
	nio, _ := c.indexOwner("INDEX-OWNER", c.AllFuncs("tree"), "symmetric adjacency")
	c.Extra["index_uses"] = nio
	c.Floor("INDEX-OWNER", 10)
	c.Decides("SHADOW-RESULT (shared with C16): in package tree no inner `err :=` hides the error variable a function returns at its end while its failure branch neither returns, stores into the outer variable nor stops (a removal that failed half-way would be reported as a success on a torn tree)")
	if p := c.Pkg("tree"); p != nil {
		c.shadowResult("SHADOW-RESULT", []*packages.Package{p}, "every edit either succeeds or reports an error")
	}
	c.Decides("SNAPSHOT: a loop of package tree over a snapshot (make+copy) of a node's neigh or br reads the node's other parallel slice at the loop index only through a snapshot as well")
	ns, _ := c.snapshotParallel("SNAPSHOT", c.AllFuncs("tree"))
	c.Extra["snapshot_loops"] = ns
	c.Floor("SNAPSHOT", 1)
	c.Decides("ROOT-WRITE (shared with C05): every write of Tree.root in package tree is the setter, a listed case that needs no re-orientation, or is followed by ReorderEdges(<the new root>, nil, ...)")
	c.rootWrites("ROOT-WRITE", "every branch pointing away from the root")
	c.Floor("ROOT-WRITE", 4)
	if os.Getenv("GTVERIF_DISCOVER") != "" {
		c.reindexLast("REINDEX-LAST", nil, "", true)
	}
	c.Decides("ORIENT-CUR: every flip of a branch (Edge.Inverse) in package tree is guarded by a condition reading the current left/right end of a branch (directly, through getters, through locals, or through a helper that reads them) and never only by remembered state")
	c.Extra["flip_sites"] = c.orientCurrentRule("ORIENT-CUR")
	c.Floor("ORIENT-CUR", 3)
	c.Decides("NO-NEIGHBOUR-TAIL: no function of packages tree and support takes a positional tail (`[k:]`, k > 0) of a node's neighbour or branch list: the parent has no fixed place in them after an edit")
	if c.noNeighbourTail("NO-NEIGHBOUR-TAIL", c.AllFuncs("tree", "support"), "all branches = internal + external ones") < 20 {
		c.Undecided("NO-NEIGHBOUR-TAIL", "coverage", token.NoPos, "fewer than 20 loops over neighbour/branch lists seen in packages tree and support (about 60 were counted by hand)")
	}
}
