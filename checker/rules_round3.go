package main

import (
	"fmt"
	"go/ast"
	"go/constant"
	"go/token"
	"go/types"
	"sort"
	"strings"

	"golang.org/x/tools/go/packages"
)

// ---------------------------------------------------------------------------------------------
// ROOT-ONCE (C02): a reader that builds one tree inside a token loop (or a recursion) sets the root
// under a guard. That guard must be a latch: once the root has been set, nothing in the loop may
// make the guard true again. Otherwise a second "first" node replaces the root, the nodes created
// before it are orphaned while the id counter keeps running, and the delivered tree has node ids
// that are not 0..n-1: every id-indexed traversal (NodeRootDistance, LTT, ...) indexes out of range.
//
// Accepted latches, for a conjunct g of the conditions on the path to SetRoot:
//
//	v == nil   where every other assignment to v in the loop stores a value that is never nil
//	           (result of a constructor-like call returning a single pointer from a New*/Connect*
//	           function, or another local with that property);
//	n == 0     where n is only ever incremented in the loop;
//	!b         where b is only ever assigned true in the loop.
//
// Recursive form (SetRoot under `param == nil`): every self-call passes a never-nil local.
func (c *Ctx) rootOnce(rule string, pkgs ...string) int {
	n, _ := c.rootOnceWith(rule, c.AllFuncs(pkgs...), func(g *types.Func) bool { return isRepoFunc(g, "tree", "Tree", "SetRoot") })
	return n
}

func (c *Ctx) rootOnceWith(rule string, funcs []*FuncInfo, isSetRoot func(*types.Func) bool) (n, nviol int) {
	for _, fi := range funcs {
		if fi.Decl.Body == nil {
			continue
		}
		info := fi.Pkg.TypesInfo
		for _, cl := range callsIn(fi.Decl.Body, true) {
			if g := calleeOf(info, cl); g == nil || !isSetRoot(g) {
				continue
			}
			st := stackTo(fi.Decl.Body, cl)
			var loop ast.Node
			for _, a := range st {
				switch a.(type) {
				case *ast.ForStmt, *ast.RangeStmt:
					loop = a
				}
			}
			key := fmt.Sprintf("%s/SetRoot", funcName(fi.Obj))
			conds, ok := c.pathConds(info, fi.Decl.Body, cl, false)
			if !ok {
				n++
				c.Undecided(rule, key, cl.Pos(), "conditions on the path to SetRoot not recognised")
				continue
			}
			flat := flattenConds(conds)
			if loop != nil {
				n++
				var why []string
				latched := false
				for _, cd := range flat {
					if cd.Expr == nil {
						continue
					}
					okL, reason := c.isLatch(info, loop, cd, cl)
					if okL {
						latched = true
						why = []string{reason}
						break
					}
					if reason != "" {
						why = append(why, reason)
					}
				}
				if latched {
					c.OK(rule, key, cl.Pos(), "the root is set at most once per call: "+why[0])
				} else {
					msg := "the root is set inside a loop under a guard that can become true again after the first time"
					if len(why) > 0 {
						msg += " (" + joinMax(why, 3) + ")"
					}
					msg += ": a second node then replaces the root, the nodes created before are orphaned and the delivered tree's node ids are not 0..n-1 (id-indexed traversals index out of range)"
					nviol++
					c.Violation(rule, key, cl.Pos(), msg).Clause = "every delivered tree can be traversed, indexed and written back without crashing"
				}
				continue
			}
			// recursive form
			sig := fi.Obj.Type().(*types.Signature)
			var guardParam *types.Var
			idx := -1
			for _, cd := range flat {
				if cd.Expr == nil {
					continue
				}
				if be, ok := unparen(cd.Expr).(*ast.BinaryExpr); ok && ((be.Op == token.EQL && !cd.Neg) || (be.Op == token.NEQ && cd.Neg)) {
					for _, side := range [][2]ast.Expr{{be.X, be.Y}, {be.Y, be.X}} {
						if isNilIdent(info, side[1]) {
							if o, ok := identObj(info, side[0]).(*types.Var); ok {
								for i := 0; i < sig.Params().Len(); i++ {
									if sig.Params().At(i) == o {
										guardParam, idx = o, i
									}
								}
							}
						}
					}
				}
			}
			if guardParam == nil {
				continue // not in a loop, not guarded by a parameter: a straight-line builder
			}
			n++
			bad := ""
			for _, rc := range callsIn(fi.Decl.Body, true) {
				if calleeOf(info, rc) != fi.Obj || idx >= len(rc.Args) {
					continue
				}
				if !c.neverNil(info, fi.Decl.Body, rc.Args[idx], 3) {
					bad = c.canon(info, rc.Args[idx], nil)
				}
			}
			if bad == "" {
				c.OK(rule, key, cl.Pos(), "the root is set only in the outermost call: every recursive call passes a node just created for "+guardParam.Name())
			} else {
				nviol++
				c.Violation(rule, key, cl.Pos(), fmt.Sprintf("the root is set when %s is nil and a recursive call passes %s, which may be nil: an inner clade then replaces the root and orphans what was built", guardParam.Name(), bad)).Clause = "every delivered tree can be traversed, indexed and written back without crashing"
			}
		}
	}
	return n, nviol
}

func joinMax(xs []string, k int) string {
	out := ""
	for i, x := range xs {
		if i >= k {
			break
		}
		if i > 0 {
			out += "; "
		}
		out += x
	}
	return out
}

// isLatch decides whether the condition cd (true on the path to `at`) is a latch of the loop.
func (c *Ctx) isLatch(info *types.Info, loop ast.Node, cd cond, at ast.Node) (bool, string) {
	e := unparen(cd.Expr)
	// !b  (b only assigned true)
	if id, ok := e.(*ast.Ident); ok && cd.Neg {
		v := identObj(info, id)
		if v == nil {
			return false, ""
		}
		okAll := true
		forAssignsTo(info, loop, v, func(rhs ast.Expr, multi, incdec bool) {
			if multi || incdec || rhs == nil {
				okAll = false
				return
			}
			if tv, ok := info.Types[rhs]; !ok || tv.Value == nil || tv.Value.String() != "true" {
				okAll = false
			}
		})
		if okAll {
			return true, "flag " + id.Name + " is only ever set to true in the loop"
		}
		return false, "flag " + id.Name + " can be reset in the loop"
	}
	be, ok := e.(*ast.BinaryExpr)
	if !ok {
		return false, ""
	}
	op := be.Op
	if cd.Neg {
		switch op {
		case token.EQL:
			op = token.NEQ
		case token.NEQ:
			op = token.EQL
		case token.GTR:
			op = token.LEQ
		case token.LEQ:
			op = token.GTR
		case token.LSS:
			op = token.GEQ
		case token.GEQ:
			op = token.LSS
		}
	}
	for _, side := range [][2]ast.Expr{{be.X, be.Y}, {be.Y, be.X}} {
		// a counter kept in a field of a local record (ids.nnodes): every store into that field,
		// anywhere in the repository, is an increment
		if sel, ok := unparen(side[0]).(*ast.SelectorExpr); ok {
			if fv, ok := info.Uses[sel.Sel].(*types.Var); ok && fv.IsField() {
				if tv, ok := info.Types[side[1]]; ok && tv.Value != nil {
					val := tv.Value.String()
					swapped := side[0] == be.Y
					o2 := op
					if swapped {
						switch o2 {
						case token.LSS:
							o2 = token.GTR
						case token.GTR:
							o2 = token.LSS
						case token.LEQ:
							o2 = token.GEQ
						case token.GEQ:
							o2 = token.LEQ
						}
					}
					if (o2 == token.EQL && val == "0") || (o2 == token.LEQ && val == "0") || (o2 == token.LSS && val == "1") {
						onlyInc, nInc := true, 0
						for _, p := range c.All {
							for _, f := range p.Syntax {
								ast.Inspect(f, func(m ast.Node) bool {
									switch x := m.(type) {
									case *ast.IncDecStmt:
										if s2, ok := unparen(x.X).(*ast.SelectorExpr); ok && p.TypesInfo.Uses[s2.Sel] == fv {
											if x.Tok == token.INC {
												nInc++
											} else {
												onlyInc = false
											}
										}
									case *ast.AssignStmt:
										for _, l := range x.Lhs {
											if s2, ok := unparen(l).(*ast.SelectorExpr); ok && p.TypesInfo.Uses[s2.Sel] == fv {
												if x.Tok == token.ADD_ASSIGN {
													nInc++
												} else {
													onlyInc = false
												}
											}
										}
									case *ast.UnaryExpr:
										if x.Op == token.AND {
											if s2, ok := unparen(x.X).(*ast.SelectorExpr); ok && p.TypesInfo.Uses[s2.Sel] == fv {
												onlyInc = false
											}
										}
									}
									return true
								})
							}
						}
						if onlyInc && nInc > 0 {
							return true, "counter field " + fv.Name() + " is only ever incremented"
						}
						return false, "counter field " + fv.Name() + " is not a pure increment counter"
					}
				}
			}
		}
		v := identObj(info, side[0])
		if v == nil {
			continue
		}
		if _, isVar := v.(*types.Var); !isVar {
			continue
		}
		name := v.Name()
		// v == nil
		if op == token.EQL && isNilIdent(info, side[1]) {
			bad := ""
			forAssignsTo(info, loop, v, func(rhs ast.Expr, multi, incdec bool) {
				if multi || incdec || rhs == nil {
					bad = "assigned from a multi-valued call whose error is not examined"
					return
				}
				if !c.neverNil(info, loop, rhs, 3) {
					bad = "assigned " + c.canon(info, rhs, nil) + ", which may be nil"
				}
			})
			if bad == "" {
				return true, name + " is nil only before the first node is created (every assignment in the loop stores a node just created)"
			}
			return false, name + " == nil can hold again: " + name + " is " + bad
		}
		// n == 0 / n <= 0 / n < 1 with n only incremented
		if tv, ok := info.Types[side[1]]; ok && tv.Value != nil {
			val := tv.Value.String()
			swapped := side[0] == be.Y
			o := op
			if swapped {
				switch o {
				case token.LSS:
					o = token.GTR
				case token.GTR:
					o = token.LSS
				case token.LEQ:
					o = token.GEQ
				case token.GEQ:
					o = token.LEQ
				}
			}
			zeroTest := (o == token.EQL && val == "0") || (o == token.LEQ && val == "0") || (o == token.LSS && val == "1")
			if zeroTest {
				onlyInc := true
				nInc := 0
				// &v handed to a helper that only increments through the pointer counts as an increment
				incViaPtr := map[ast.Node]bool{}
				for _, call := range callsIn(loop, true) {
					g := calleeOf(info, call)
					if g == nil || !inRepo(g) {
						continue
					}
					for i, a := range call.Args {
						u, ok := unparen(a).(*ast.UnaryExpr)
						if !ok || u.Op != token.AND || identObj(info, u.X) != v {
							continue
						}
						if c.onlyIncrementsThrough(g, i) {
							incViaPtr[u] = true
							nInc++
						}
					}
				}
				ast.Inspect(loop, func(m ast.Node) bool {
					switch x := m.(type) {
					case *ast.UnaryExpr:
						if incViaPtr[x] {
							return false
						}
						if x.Op == token.AND && identObj(info, x.X) == v {
							onlyInc = false
						}
					case *ast.IncDecStmt:
						if identObj(info, x.X) == v {
							if x.Tok == token.INC {
								nInc++
							} else {
								onlyInc = false
							}
						}
					case *ast.AssignStmt:
						for _, l := range x.Lhs {
							if identObj(info, l) == v {
								if x.Tok == token.ADD_ASSIGN {
									nInc++
								} else if !(x.Tok == token.DEFINE && info.Defs[unparen(l).(*ast.Ident)] != nil && info.Defs[unparen(l).(*ast.Ident)] != v) {
									onlyInc = false
								}
							}
						}
					}
					return true
				})
				if onlyInc && nInc > 0 {
					return true, "counter " + name + " is only ever incremented in the loop"
				}
				return false, "counter " + name + " is not a pure increment counter"
			}
		}
	}
	return false, ""
}

// forAssignsTo calls f for every assignment to v lexically inside root (closures included).
// incdec is true for v++ / v += positive constant; multi for a multi-valued right-hand side.
func forAssignsTo(info *types.Info, root ast.Node, v types.Object, f func(rhs ast.Expr, multi, incdec bool)) {
	ast.Inspect(root, func(m ast.Node) bool {
		switch s := m.(type) {
		case *ast.IncDecStmt:
			if identObj(info, s.X) == v {
				if s.Tok == token.INC {
					f(nil, false, true)
				} else {
					f(nil, false, false)
				}
			}
		case *ast.AssignStmt:
			for i, l := range s.Lhs {
				if identObj(info, l) != v {
					continue
				}
				if s.Tok == token.DEFINE && info.Defs[unparen(l).(*ast.Ident)] != nil && info.Defs[unparen(l).(*ast.Ident)] != v {
					continue
				}
				switch {
				case s.Tok == token.ADD_ASSIGN:
					if tv, ok := info.Types[s.Rhs[0]]; ok && tv.Value != nil && tv.Value.String() != "0" && tv.Value.String()[0] != '-' {
						f(nil, false, true)
					} else {
						f(s.Rhs[0], false, false)
					}
				case s.Tok != token.ASSIGN && s.Tok != token.DEFINE:
					f(nil, false, false)
				case len(s.Lhs) != len(s.Rhs):
					f(nil, true, false)
				default:
					f(s.Rhs[i], false, false)
				}
			}
		case *ast.RangeStmt:
			for _, e := range []ast.Expr{s.Key, s.Value} {
				if e != nil && identObj(info, e) == v {
					f(nil, true, false)
				}
			}
		case *ast.UnaryExpr:
			if s.Op == token.AND && identObj(info, s.X) == v {
				f(nil, true, false) // address taken: may be written anywhere
			}
		}
		return true
	})
}

// neverNil: the expression is a call of a constructor of the repository returning a single pointer
// that is a fresh allocation on all paths (NewNode, NewEdge, NewTree, ConnectNodes...), a composite
// literal address, or a local all of whose assignments (in scope) are never nil.
func (c *Ctx) neverNil(info *types.Info, scope ast.Node, e ast.Expr, depth int) bool {
	e = unparen(e)
	switch x := e.(type) {
	case *ast.UnaryExpr:
		if x.Op == token.AND {
			if _, ok := unparen(x.X).(*ast.CompositeLit); ok {
				return true
			}
		}
	case *ast.CallExpr:
		g := calleeOf(info, x)
		if g == nil {
			return false
		}
		return c.returnsFresh(g)
	case *ast.Ident:
		if depth == 0 {
			return false
		}
		v := identObj(info, x)
		if v == nil {
			return false
		}
		if _, ok := v.(*types.Var); !ok {
			return false
		}
		// the local's declaration may lie outside `scope` (declared before the loop): look at the
		// whole enclosing function when available
		all := true
		nAss := 0
		forAssignsTo(info, scope, v, func(rhs ast.Expr, multi, incdec bool) {
			nAss++
			if multi || incdec || rhs == nil || !c.neverNil(info, scope, rhs, depth-1) {
				all = false
			}
		})
		return all && nAss > 0
	}
	return false
}

// returnsFresh: a function of the repository with a single pointer result, every return statement
// of which returns the address of a composite literal, new(T), or a local assigned only such values.
func (c *Ctx) returnsFresh(g *types.Func) bool {
	c.indexDecls()
	fd, pk := c.declOf[g], c.declPkg[g]
	if fd == nil || fd.Body == nil {
		return false
	}
	sig := g.Type().(*types.Signature)
	if sig.Results().Len() != 1 {
		return false
	}
	if _, ok := sig.Results().At(0).Type().Underlying().(*types.Pointer); !ok {
		return false
	}
	info := pk.TypesInfo
	ok := true
	nret := 0
	var fresh func(e ast.Expr, depth int) bool
	fresh = func(e ast.Expr, depth int) bool {
		e = unparen(e)
		switch x := e.(type) {
		case *ast.UnaryExpr:
			if x.Op == token.AND {
				_, isLit := unparen(x.X).(*ast.CompositeLit)
				return isLit
			}
		case *ast.CallExpr:
			if id, isId := unparen(x.Fun).(*ast.Ident); isId {
				if b, isB := info.Uses[id].(*types.Builtin); isB && b.Name() == "new" {
					return true
				}
			}
			if h := calleeOf(info, x); h != nil && h != g && depth > 0 {
				return c.returnsFresh(h)
			}
		case *ast.Ident:
			if depth == 0 {
				return false
			}
			v := identObj(info, x)
			if v == nil {
				return false
			}
			all, nAss := true, 0
			forAssignsTo(info, fd.Body, v, func(rhs ast.Expr, multi, incdec bool) {
				nAss++
				if multi || incdec || rhs == nil || !fresh(rhs, depth-1) {
					all = false
				}
			})
			return all && nAss > 0
		}
		return false
	}
	namedRes := sig.Results().At(0)
	ast.Inspect(fd.Body, func(m ast.Node) bool {
		if _, isLit := m.(*ast.FuncLit); isLit {
			return false
		}
		if rs, isRet := m.(*ast.ReturnStmt); isRet {
			nret++
			if len(rs.Results) == 1 {
				if !fresh(rs.Results[0], 2) {
					ok = false
				}
			} else if len(rs.Results) == 0 && namedRes.Name() != "" {
				all, nAss := true, 0
				forAssignsTo(info, fd.Body, namedRes, func(rhs ast.Expr, multi, incdec bool) {
					nAss++
					if multi || incdec || rhs == nil || !fresh(rhs, 2) {
						all = false
					}
				})
				if !all || nAss == 0 {
					ok = false
				}
			} else {
				ok = false
			}
		}
		return true
	})
	return ok && nret > 0
}

// ---------------------------------------------------------------------------------------------
// LOSTWRITE: `for _, v := range xs { v.f = ... }` where the elements of xs are struct VALUES writes
// into the per-iteration copy; if the copy is not used afterwards the store is lost (the map entry
// keeps its old value). Every range loop whose value variable is a struct value is an instance.
func (c *Ctx) lostWrite(rule string, funcs []*FuncInfo, clause string) (n, nviol int) {
	for _, fi := range funcs {
		if fi.Decl.Body == nil {
			continue
		}
		info := fi.Pkg.TypesInfo
		k := 0
		ast.Inspect(fi.Decl.Body, func(m ast.Node) bool {
			rs, ok := m.(*ast.RangeStmt)
			if !ok || rs.Value == nil || rs.Tok != token.DEFINE {
				return true
			}
			v := identObj(info, rs.Value)
			if v == nil {
				return true
			}
			switch v.Type().Underlying().(type) {
			case *types.Struct, *types.Array:
			default:
				return true
			}
			k++
			n++
			key := fmt.Sprintf("%s/range#%d %s", funcName(fi.Obj), k, v.Name())
			// stores through v that stay inside the copy
			var stores []ast.Node
			ast.Inspect(rs.Body, func(q ast.Node) bool {
				var lhs []ast.Expr
				switch s := q.(type) {
				case *ast.AssignStmt:
					lhs = s.Lhs
				case *ast.IncDecStmt:
					lhs = []ast.Expr{s.X}
				}
				for _, l := range lhs {
					if rootedInCopy(info, l, v) {
						stores = append(stores, q)
					}
				}
				return true
			})
			if len(stores) == 0 {
				c.OK(rule, key, rs.Pos(), "the per-iteration copy is only read")
				return true
			}
			// any use of the copy as a whole after the first store keeps the store alive
			first := stores[0].End()
			used := false
			ast.Inspect(rs.Body, func(q ast.Node) bool {
				id, ok := q.(*ast.Ident)
				if !ok || id.Pos() < first || identObj(info, id) != v {
					return true
				}
				used = true
				return true
			})
			if used {
				c.OK(rule, key, rs.Pos(), "the modified copy is used afterwards")
			} else {
				nviol++
				c.Violation(rule, key, stores[0].Pos(), fmt.Sprintf("the loop stores into %s, which is a copy of the element (the elements are %s values, not pointers), and the copy is not used afterwards: the container keeps the old value", v.Name(), types.TypeString(v.Type(), func(p *types.Package) string { return p.Name() }))).Clause = clause
			}
			return true
		})
	}
	return
}

// rootedInCopy: l is v.f, v.f.g, v[i] ... reached from the variable v through struct fields and
// array indices only (no pointer, slice or map in between: those would write shared storage).
func rootedInCopy(info *types.Info, l ast.Expr, v types.Object) bool {
	l = unparen(l)
	depth := 0
	for {
		switch x := l.(type) {
		case *ast.SelectorExpr:
			tv, ok := info.Types[x.X]
			if !ok {
				return false
			}
			if _, isStruct := tv.Type.Underlying().(*types.Struct); !isStruct {
				return false
			}
			l = unparen(x.X)
			depth++
		case *ast.IndexExpr:
			tv, ok := info.Types[x.X]
			if !ok {
				return false
			}
			if _, isArr := tv.Type.Underlying().(*types.Array); !isArr {
				return false
			}
			l = unparen(x.X)
			depth++
		case *ast.Ident:
			return depth > 0 && identObj(info, x) == v
		default:
			return false
		}
	}
}

// ---------------------------------------------------------------------------------------------
// nilFlow: forward must-analysis "o is known non-nil here" over the go/cfg graph of one function
// body (closures excluded). Facts: after `o = e` with e anything but nil / a multi-valued call whose
// error is discarded: non-nil (optimistic: single results are trusted); after the true edge of
// `o != nil` or the false edge of `o == nil`: non-nil; after `var o *T`, `o = nil`, `o, _ = f()`
// and on the nil edge of a test: not known. Returns, for a position inside the body, whether o is
// known non-nil when the node at that position is evaluated (ok=false: position not located).
type nilFlowResult struct {
	fg  *fcfg
	in  map[int32]bool // block index -> non-nil at entry
	o   types.Object
	c   *Ctx
	inf *types.Info
}

func (c *Ctx) nilFlow(info *types.Info, body *ast.BlockStmt, o types.Object, nonNilAtEntry bool) *nilFlowResult {
	fg := c.cfgOf(info, body)
	r := &nilFlowResult{fg: fg, in: map[int32]bool{}, o: o, c: c, inf: info}
	blocks := fg.g.Blocks
	if len(blocks) == 0 {
		return r
	}
	reach := map[int32]bool{}
	for _, b := range blocks {
		r.in[b.Index] = true // optimistic start
	}
	r.in[blocks[0].Index] = nonNilAtEntry
	reach[blocks[0].Index] = true
	changed := true
	for iter := 0; changed && iter < 200; iter++ {
		changed = false
		for _, b := range blocks {
			if !reach[b.Index] {
				continue
			}
			out := r.in[b.Index]
			for _, n := range b.Nodes {
				out = r.transfer(n, out)
			}
			for si, s := range b.Succs {
				v := out
				if len(b.Succs) == 2 && len(b.Nodes) > 0 {
					if e, ok := b.Nodes[len(b.Nodes)-1].(ast.Expr); ok {
						if to, trueIsNonNil, ok := nilTest(info, e); ok && to == o {
							if si == 0 {
								v = trueIsNonNil
							} else {
								v = !trueIsNonNil
							}
						}
					}
				}
				if !reach[s.Index] {
					reach[s.Index] = true
					changed = true
				}
				if r.in[s.Index] && !v {
					r.in[s.Index] = false
					changed = true
				}
			}
		}
	}
	return r
}

func (r *nilFlowResult) transfer(n ast.Node, cur bool) bool {
	info := r.inf
	switch s := n.(type) {
	case *ast.AssignStmt:
		for i, l := range s.Lhs {
			if identObj(info, l) != r.o {
				continue
			}
			if len(s.Lhs) != len(s.Rhs) {
				// multi-valued call: trusted unless a result of the same call is discarded
				discarded := false
				for _, l2 := range s.Lhs {
					if id, ok := unparen(l2).(*ast.Ident); ok && id.Name == "_" {
						discarded = true
					}
				}
				cur = !discarded
				continue
			}
			rhs := unparen(s.Rhs[i])
			if isNilIdent(info, rhs) {
				cur = false
			} else if id, ok := rhs.(*ast.Ident); ok && identObj(info, id) != nil {
				// copy of another variable: trusted only if that variable is never compared with nil here
				cur = true
			} else {
				cur = true
			}
		}
	case *ast.DeclStmt:
		if gd, ok := s.Decl.(*ast.GenDecl); ok {
			for _, sp := range gd.Specs {
				if vs, ok := sp.(*ast.ValueSpec); ok {
					for i, nm := range vs.Names {
						if info.Defs[nm] == r.o {
							if i < len(vs.Values) && !isNilIdent(info, vs.Values[i]) {
								cur = true
							} else {
								cur = false
							}
						}
					}
				}
			}
		}
	case *ast.ValueSpec:
		for i, nm := range s.Names {
			if info.Defs[nm] == r.o {
				if i < len(s.Values) && !isNilIdent(info, s.Values[i]) {
					cur = true
				} else {
					cur = false
				}
			}
		}
	case *ast.RangeStmt:
		for _, l := range []ast.Expr{s.Key, s.Value} {
			if l != nil && identObj(info, l) == r.o {
				cur = true
			}
		}
	case *ast.Ident:
		// go/cfg lists the key and value of a range statement as bare identifiers
		if identObj(info, s) == r.o {
			cur = true
		}
	}
	return cur
}

// at: is o known non-nil when the expression at pos is evaluated?
func (r *nilFlowResult) at(pos token.Pos) (nonNil, ok bool) {
	b, idx := locate(r.fg.g, pos)
	if b == nil {
		return false, false
	}
	cur := r.in[b.Index]
	for i := 0; i < idx && i < len(b.Nodes); i++ {
		cur = r.transfer(b.Nodes[i], cur)
	}
	return cur, true
}

// ---------------------------------------------------------------------------------------------
// FMT-CONST: a text taken from a tree (names, comments, Newick) must never be used AS a format
// string: fmt.Fprintf(f, t.Newick()+"\n") rewrites every '%' of a label ("100%", "Homo%20sapiens")
// into %!x(MISSING) noise. Every call of a printf-like function whose format argument is not a
// constant and that passes no further argument is reported.
func (c *Ctx) fmtConst(rule string, pkgs []*packages.Package, clause string, isSource func(*types.Func) bool) (n, nviol int) {
	if isSource == nil {
		isSource = func(g *types.Func) bool {
			pp := g.Pkg().Path()
			return pp == modPath+"/tree" || strings.HasPrefix(pp, modPath+"/io/")
		}
	}
	fmtIdx := map[string]int{"fmt.Printf": 0, "fmt.Sprintf": 0, "fmt.Errorf": 0, "fmt.Fprintf": 1, "log.Printf": 0, "log.Fatalf": 0, "log.Panicf": 0}
	for _, p := range pkgs {
		info := p.TypesInfo
		for _, f := range p.Syntax {
			walkStack(f, func(m ast.Node, stack []ast.Node) bool {
				call, ok := m.(*ast.CallExpr)
				if !ok {
					return true
				}
				fn := calleeOf(info, call)
				if fn == nil || fn.Pkg() == nil {
					return true
				}
				name := fn.Pkg().Path() + "." + fn.Name()
				if sig := fn.Type().(*types.Signature); sig.Recv() != nil {
					// (*log.Logger).Printf and friends
					if fn.Pkg().Path() == "log" && strings.HasSuffix(fn.Name(), "f") {
						name = "log.Printf"
					} else {
						return true
					}
				}
				idx, isFmt := fmtIdx[name]
				if !isFmt || len(call.Args) <= idx {
					return true
				}
				n++
				if tv, ok := info.Types[call.Args[idx]]; ok && tv.Value != nil {
					return true // constant format
				}
				if len(call.Args) > idx+1 || call.Ellipsis.IsValid() {
					return true // a computed format with arguments: somebody built a format on purpose
				}
				if !c.derivedFromTree(info, stack, call.Args[idx], 3, isSource) {
					return true // not a text of a tree (e.g. a server response): outside the property
				}
				nviol++
				c.Violation(rule, c.enclosingFuncName(info, stack)+"/"+fn.Name()+"("+c.canon(info, call.Args[idx], nil)+")", call.Pos(), "a computed text is used as the format string of "+fn.Name()+" with no arguments: every '%' it contains (tip names such as 100%, Homo%20sapiens, comments) is rewritten into %!x(MISSING) noise; write the text itself (WriteString / Fprint / \"%s\")").Clause = clause
				return true
			})
		}
	}
	c.Trivial(rule, "scan", token.NoPos, fmt.Sprintf("%d printf-like calls examined", n))
	return
}

// derivedFromTree: the expression contains a call of a method of tree.Tree / Node / Edge or of a
// writer of the io packages, directly or through locals of the enclosing function.
func (c *Ctx) derivedFromTree(info *types.Info, stack []ast.Node, e ast.Expr, depth int, isSource func(*types.Func) bool) bool {
	found := false
	ast.Inspect(e, func(m ast.Node) bool {
		switch x := m.(type) {
		case *ast.CallExpr:
			if g := calleeOf(info, x); g != nil && g.Pkg() != nil {
				if isSource(g) {
					found = true
				}
			}
		case *ast.Ident:
			if depth == 0 {
				return true
			}
			v, ok := identObj(info, x).(*types.Var)
			if !ok || v.IsField() {
				return true
			}
			// definitions of the local in the enclosing function
			for i := len(stack) - 1; i >= 0; i-- {
				var body *ast.BlockStmt
				switch f := stack[i].(type) {
				case *ast.FuncDecl:
					body = f.Body
				case *ast.FuncLit:
					body = f.Body
				}
				if body == nil {
					continue
				}
				forAssignsTo(info, body, v, func(rhs ast.Expr, multi, incdec bool) {
					if rhs != nil && rhs != e && c.derivedFromTree(info, stack, rhs, depth-1, isSource) {
						found = true
					}
				})
			}
		}
		return !found
	})
	return found
}

// ---------------------------------------------------------------------------------------------
// SCANNER-ERR: a bufio.Scanner stops silently on a read error or on a token longer than its
// buffer (64 KiB by default): a loop `for s.Scan()` not followed by a look at s.Err() returns a
// truncated list as if the file ended there.
func (c *Ctx) scannerErr(rule string, funcs []*FuncInfo, clause string) (n, nviol int) {
	for _, fi := range funcs {
		if fi.Decl.Body == nil {
			continue
		}
		info := fi.Pkg.TypesInfo
		scans := map[types.Object]token.Pos{}
		errs := map[types.Object]bool{}
		ast.Inspect(fi.Decl.Body, func(m ast.Node) bool {
			call, ok := m.(*ast.CallExpr)
			if !ok {
				return true
			}
			g := calleeOf(info, call)
			if g == nil || g.Pkg() == nil || g.Pkg().Path() != "bufio" {
				return true
			}
			sig := g.Type().(*types.Signature)
			if sig.Recv() == nil || !strings.HasSuffix(sig.Recv().Type().String(), "bufio.Scanner") {
				return true
			}
			sel, ok := unparen(call.Fun).(*ast.SelectorExpr)
			if !ok {
				return true
			}
			o := identObj(info, sel.X)
			if o == nil {
				return true
			}
			switch g.Name() {
			case "Scan":
				if _, seen := scans[o]; !seen {
					scans[o] = call.Pos()
				}
			case "Err":
				errs[o] = true
			}
			return true
		})
		for o, pos := range scans {
			n++
			key := funcName(fi.Obj) + "/" + o.Name() + ".Scan"
			if errs[o] {
				c.OK(rule, key, pos, "the scanner's error is looked at")
			} else {
				nviol++
				c.Violation(rule, key, pos, "the function reads with "+o.Name()+".Scan() and never looks at "+o.Name()+".Err(): a read error or a line longer than the scanner's buffer (64 KiB) ends the loop silently and the rest of the input is dropped with a nil error").Clause = clause
			}
		}
	}
	return
}

// ---------------------------------------------------------------------------------------------
// Comparators. lessVerdict classifies the `less` function literal given to sort.Slice & co:
//
//	"total"   one comparison `K(x[i]) < K(x[j])` (or >, or strings.Compare(..) <op> 0) where the two
//	          sides are the same expression in i and j and K only indexes, selects fields and calls
//	          trivial getters of the repository: distinct keys are strictly ordered;
//	"lossy"   the sides are compared through another function (strings.ToLower, strconv.Atoi, len, a
//	          slice of the string ...): elements that differ only by what the function discards tie,
//	          and a tie leaves them in whatever order the slice had; or the key is chosen by a
//	          condition that is not "the previous keys are equal" (two-clause mixed comparator), which
//	          is not transitive in general;
//	"unknown" anything else (never reported).
func (c *Ctx) lessVerdict(info *types.Info, lit *ast.FuncLit) (verdict, why string) {
	if lit.Type.Params == nil {
		return "unknown", ""
	}
	var ps []types.Object
	for _, f := range lit.Type.Params.List {
		for _, nm := range f.Names {
			ps = append(ps, info.Defs[nm])
		}
	}
	if len(ps) != 2 {
		return "unknown", ""
	}
	// locals of the literal: single definitions, expanded
	defs := map[types.Object]ast.Expr{}
	multi := map[types.Object]bool{}
	var stmts []ast.Stmt
	for _, s := range lit.Body.List {
		if as, ok := s.(*ast.AssignStmt); ok && as.Tok == token.DEFINE {
			for i, l := range as.Lhs {
				if o := identObj(info, l); o != nil {
					if len(as.Lhs) == len(as.Rhs) {
						defs[o] = as.Rhs[i]
					} else if len(as.Rhs) == 1 {
						defs[o] = as.Rhs[0]
						multi[o] = true
					}
				}
			}
			continue
		}
		stmts = append(stmts, s)
	}
	var render func(e ast.Expr, depth int) (string, bool) // string with params replaced by $, pure?
	render = func(e ast.Expr, depth int) (string, bool) {
		e = unparen(e)
		switch x := e.(type) {
		case *ast.Ident:
			o := identObj(info, x)
			if o == ps[0] || o == ps[1] {
				return "$", true
			}
			if d, ok := defs[o]; ok && depth > 0 {
				s, pure := render(d, depth-1)
				if multi[o] {
					return s + "#" + x.Name, pure
				}
				return s, pure
			}
			return x.Name, true
		case *ast.BasicLit:
			return x.Value, true
		case *ast.IndexExpr:
			a, p1 := render(x.X, depth)
			b, p2 := render(x.Index, depth)
			return a + "[" + b + "]", p1 && p2
		case *ast.SelectorExpr:
			a, p1 := render(x.X, depth)
			return a + "." + x.Sel.Name, p1
		case *ast.StarExpr:
			a, p1 := render(x.X, depth)
			return "*" + a, p1
		case *ast.CallExpr:
			g := calleeOf(info, x)
			c.indexAccessors()
			name := "call"
			pure := false
			if g != nil {
				name = g.Name()
				if _, isGetter := c.getters[g]; isGetter {
					pure = true
				}
				// conversions between string types and float64(x) keep the order of distinct values
			} else if tv, ok := info.Types[x.Fun]; ok && tv.IsType() {
				name = "conv"
				if b, ok := tv.Type.Underlying().(*types.Basic); ok && (b.Info()&types.IsString != 0 || b.Kind() == types.Float64) {
					pure = true
				}
			}
			s, _ := render(x.Fun, depth)
			_ = name
			out := s + "("
			for _, a := range x.Args {
				as, p := render(a, depth)
				out += as + ","
				pure = pure && p
			}
			return out + ")", pure
		case *ast.SliceExpr:
			a, _ := render(x.X, depth)
			return a + "[:]", false
		case *ast.BinaryExpr:
			a, p1 := render(x.X, depth)
			b, p2 := render(x.Y, depth)
			return a + x.Op.String() + b, p1 && p2 && false // arithmetic on keys: not analysed
		}
		return "?", false
	}
	// sides of a comparison, each mentioning exactly one of the two parameters
	mentionsParam := func(e ast.Expr, p types.Object) bool {
		found := false
		var walk func(e ast.Expr, depth int)
		walk = func(e ast.Expr, depth int) {
			ast.Inspect(e, func(m ast.Node) bool {
				if id, ok := m.(*ast.Ident); ok {
					o := identObj(info, id)
					if o == p {
						found = true
					}
					if d, ok := defs[o]; ok && depth > 0 {
						walk(d, depth-1)
					}
				}
				return !found
			})
		}
		walk(e, 3)
		return found
	}
	type cmp struct {
		a, b ast.Expr
	}
	asCmp := func(e ast.Expr) (cmp, bool) {
		be, ok := unparen(e).(*ast.BinaryExpr)
		if !ok {
			return cmp{}, false
		}
		switch be.Op {
		case token.LSS, token.GTR, token.LEQ, token.GEQ:
		default:
			return cmp{}, false
		}
		// strings.Compare(A, B) <op> 0
		if call, ok := unparen(be.X).(*ast.CallExpr); ok && len(call.Args) == 2 {
			if g := calleeOf(info, call); g != nil && g.Pkg() != nil && (g.Pkg().Path() == "strings" || g.Pkg().Path() == "bytes" || g.Pkg().Path() == "cmp") && g.Name() == "Compare" {
				return cmp{call.Args[0], call.Args[1]}, true
			}
		}
		return cmp{be.X, be.Y}, true
	}
	classify := func(k cmp) (string, string) {
		a, b := k.a, k.b
		if !(mentionsParam(a, ps[0]) && mentionsParam(b, ps[1]) && !mentionsParam(a, ps[1]) && !mentionsParam(b, ps[0])) &&
			!(mentionsParam(a, ps[1]) && mentionsParam(b, ps[0]) && !mentionsParam(a, ps[0]) && !mentionsParam(b, ps[1])) {
			return "unknown", ""
		}
		sa, pa := render(a, 3)
		sb, pb := render(b, 3)
		if sa != sb {
			return "unknown", ""
		}
		if pa && pb {
			return "total", sa
		}
		return "lossy", "the elements are compared through " + sa + " (not a field or a trivial getter): elements that differ only in what this computation discards tie, and tied elements keep whatever order the slice had before"
	}
	if len(stmts) == 1 {
		if rs, ok := stmts[0].(*ast.ReturnStmt); ok && len(rs.Results) == 1 {
			if k, ok := asCmp(rs.Results[0]); ok {
				return classify(k)
			}
		}
		return "unknown", ""
	}
	if len(stmts) == 2 {
		is, ok1 := stmts[0].(*ast.IfStmt)
		rs, ok2 := stmts[1].(*ast.ReturnStmt)
		if ok1 && ok2 && is.Else == nil && is.Init == nil && len(is.Body.List) == 1 && len(rs.Results) == 1 {
			if r1, ok := is.Body.List[0].(*ast.ReturnStmt); ok && len(r1.Results) == 1 {
				k1, okA := asCmp(r1.Results[0])
				k2, okB := asCmp(rs.Results[0])
				if okA && okB {
					// lexicographic chain: the condition is K1(i) != K1(j)
					if be, ok := unparen(is.Cond).(*ast.BinaryExpr); ok && be.Op == token.NEQ {
						s1, _ := render(be.X, 3)
						s2, _ := render(be.Y, 3)
						ka, _ := render(k1.a, 3)
						if s1 == s2 && s1 == ka {
							v1, w1 := classify(k1)
							v2, w2 := classify(k2)
							if v1 == "lossy" {
								return v1, w1
							}
							if v2 == "lossy" {
								return v2, w2
							}
							if v1 == "total" && v2 == "total" {
								return "total", w1 + " then " + w2
							}
							return "unknown", ""
						}
					}
					sa, _ := render(k1.a, 3)
					sb, _ := render(k2.a, 3)
					if sa != sb {
						return "lossy", "the key is chosen by a condition on both elements (" + sa + " when the condition holds, " + sb + " otherwise) with no clause ordering the two classes: such a relation is not transitive in general, so the sorted order depends on the order the slice had before"
					}
				}
			}
		}
	}
	return "unknown", ""
}

// lessOfSortCall returns the function literal given as `less` to sort.Slice / SliceStable /
// slices.SortFunc, or nil.
func lessOfSortCall(info *types.Info, call *ast.CallExpr) *ast.FuncLit {
	g := calleeOf(info, call)
	if g == nil || g.Pkg() == nil {
		return nil
	}
	if (g.Pkg().Path() == "sort" && (g.Name() == "Slice" || g.Name() == "SliceStable")) || (g.Pkg().Path() == "slices" && strings.HasPrefix(g.Name(), "Sort")) {
		if len(call.Args) == 2 {
			if lit, ok := unparen(call.Args[1]).(*ast.FuncLit); ok {
				return lit
			}
		}
	}
	return nil
}

// lessDeclOfSortCall: the comparator is a named function or a method value (xs.less): its
// declaration seen as a literal.
func (c *Ctx) lessDeclOfSortCall(info *types.Info, call *ast.CallExpr) (*ast.FuncLit, *types.Info) {
	g := calleeOf(info, call)
	if g == nil || g.Pkg() == nil || len(call.Args) != 2 {
		return nil, nil
	}
	if !((g.Pkg().Path() == "sort" && (g.Name() == "Slice" || g.Name() == "SliceStable")) || (g.Pkg().Path() == "slices" && strings.HasPrefix(g.Name(), "Sort"))) {
		return nil, nil
	}
	var fobj *types.Func
	switch x := unparen(call.Args[1]).(type) {
	case *ast.Ident:
		fobj, _ = info.Uses[x].(*types.Func)
	case *ast.SelectorExpr:
		fobj, _ = info.Uses[x.Sel].(*types.Func)
	}
	if fobj == nil {
		return nil, nil
	}
	gi := c.FuncOfObj(fobj)
	if gi == nil || gi.Decl.Body == nil {
		return nil, nil
	}
	return &ast.FuncLit{Type: gi.Decl.Type, Body: gi.Decl.Body}, gi.Pkg.TypesInfo
}

// cmpTotal reports every sort with a lossy comparator in the given functions.
func (c *Ctx) cmpTotal(rule string, funcs []*FuncInfo, clause string) (n, nviol int) {
	for _, fi := range funcs {
		if fi.Decl.Body == nil {
			continue
		}
		info := fi.Pkg.TypesInfo
		k := 0
		for _, call := range callsIn(fi.Decl.Body, true) {
			lit := lessOfSortCall(info, call)
			linfo := info
			if lit == nil {
				lit, linfo = c.lessDeclOfSortCall(info, call)
			}
			if lit == nil {
				continue
			}
			k++
			n++
			key := fmt.Sprintf("%s/sort#%d(%s)", funcName(fi.Obj), k, c.canon(info, call.Args[0], nil))
			v, why := c.lessVerdict(linfo, lit)
			switch v {
			case "total":
				c.OK(rule, key, call.Pos(), "strict order on the key "+why)
			case "lossy":
				nviol++
				c.Violation(rule, key, call.Pos(), why).Clause = clause
			default:
				c.Note(rule, key, call.Pos(), "comparator of a shape the rule does not classify; assumed to be a strict weak order")
			}
		}
	}
	return
}

// ---------------------------------------------------------------------------------------------
// OPTVAR-LOOP: the storage of an option (a package-level variable bound to a flag) is not
// overwritten, inside a loop over the input items, with a value computed from the current item:
// the option the user gave would then apply to the first item only and a by-product of item k to
// the items after it.
func (c *Ctx) optVarLoop(rule string, clause string) (nLoops, nviol int) {
	p := c.Pkg("cmd")
	if p == nil {
		return
	}
	regs, _ := c.collectFlagRegs()
	isOpt := map[types.Object]string{}
	for _, r := range regs {
		if r.vobj != nil {
			isOpt[r.vobj] = r.flag
		}
	}
	info := p.TypesInfo
	for _, f := range p.Syntax {
		walkStack(f, func(m ast.Node, stack []ast.Node) bool {
			var body *ast.BlockStmt
			var items []types.Object
			switch l := m.(type) {
			case *ast.RangeStmt:
				body = l.Body
				for _, e := range []ast.Expr{l.Key, l.Value} {
					if e != nil {
						if o := identObj(info, e); o != nil {
							items = append(items, o)
						}
					}
				}
			case *ast.ForStmt:
				body = l.Body
			default:
				return true
			}
			nLoops++
			derived := map[types.Object]bool{}
			for _, o := range items {
				derived[o] = true
			}
			inner := declaredIn(info, body)
			mentionsDerived := func(n ast.Node) bool {
				found := false
				ast.Inspect(n, func(q ast.Node) bool {
					if id, ok := q.(*ast.Ident); ok && derived[identObj(info, id)] {
						found = true
					}
					return !found
				})
				return found
			}
			for changed := true; changed; {
				changed = false
				ast.Inspect(body, func(q ast.Node) bool {
					if as, ok := q.(*ast.AssignStmt); ok {
						for _, r := range as.Rhs {
							if mentionsDerived(r) {
								for _, l := range as.Lhs {
									if o := identObj(info, l); o != nil && inner[o] && !derived[o] {
										derived[o] = true
										changed = true
									}
								}
							}
						}
					}
					return true
				})
			}
			walkStack(body, func(q ast.Node, st2 []ast.Node) bool {
				var lhs []ast.Expr
				var rhs []ast.Expr
				switch s := q.(type) {
				case *ast.AssignStmt:
					lhs, rhs = s.Lhs, s.Rhs
				case *ast.IncDecStmt:
					lhs = []ast.Expr{s.X}
				default:
					return true
				}
				for i, l := range lhs {
					o := identObj(info, l)
					flag, ok := isOpt[o]
					if !ok {
						continue
					}
					if as, isAs := q.(*ast.AssignStmt); isAs && as.Tok == token.DEFINE && info.Defs[unparen(l).(*ast.Ident)] != nil {
						continue
					}
					dep := false
					if len(rhs) == len(lhs) {
						dep = mentionsDerived(rhs[i])
					} else {
						for _, r := range rhs {
							dep = dep || mentionsDerived(r)
						}
					}
					// the conditions under which the store happens
					for _, a := range st2 {
						if is, ok := a.(*ast.IfStmt); ok && nodeContains(is.Body, q.Pos()) {
							if mentionsDerived(is.Cond) || (is.Init != nil && mentionsDerived(is.Init)) {
								dep = true
							}
						}
					}
					key := fmt.Sprintf("%s/--%s", c.enclosingFuncName(info, append(append([]ast.Node{}, stack...), st2...)), flag)
					if dep {
						nviol++
						c.Violation(rule, key, q.Pos(), fmt.Sprintf("the storage of option --%s (`%s`) is overwritten inside the loop over the input with a value that depends on the current item: the items after it are processed with that by-product instead of the option", flag, o.Name())).Clause = clause
					} else {
						c.OK(rule, key, q.Pos(), "option storage normalised in a loop with a value that does not depend on the current item")
					}
				}
				return true
			})
			return true
		})
	}
	c.Trivial(rule, "scan", token.NoPos, fmt.Sprintf("%d loops of package cmd examined", nLoops))
	return
}

// ---------------------------------------------------------------------------------------------
// optOwnConfirmed: the reads of another command's option storage present in the reference tree, each
// confirmed by reading (the reader wants exactly the other command's registered default).
var optOwnConfirmed = map[string]bool{
	"computesupportCmd:rawSupportOutputFile": true, // opens the raw-support file the tbe/booster sub-commands register (-r)
	"dlpantherCmd:ncbioutput":                true, // download panther writes where download ncbitax's -o points (shared default "stdout")
	"labelsCmd:outtreefile":                  true, // labels writes to the shared output variable, default stdout
	"transferCommentsCmd:edgecomments":       true, // comment transfer reuses comment clear's two switches as its own defaults (false)
	"transferCommentsCmd:nodecomments":       true,
}

// OPT-OWN: a command reads the storage of its own options. The contradiction looked for: the run
// function of command X reads the storage of an option registered by other commands only (not X,
// not an ancestor of X), while X registers an option of the same type whose storage nothing in the
// package ever reads. Then the option the user passes to X is ignored and another command's
// default decides in its place ("wrong variable of the right type").
func (c *Ctx) optOwn(rule string, clause string) (nCmds, nviol int) {
	p := c.Pkg("cmd")
	if p == nil {
		return
	}
	info := p.TypesInfo
	regs, _ := c.collectFlagRegs()
	own := map[string]map[types.Object]*flagReg{} // command variable -> storages it registers
	anyReg := map[types.Object][]*flagReg{}
	for _, r := range regs {
		if r.vobj == nil || r.cmdVar == "" {
			continue
		}
		if own[r.cmdVar] == nil {
			own[r.cmdVar] = map[types.Object]*flagReg{}
		}
		own[r.cmdVar][r.vobj] = r
		anyReg[r.vobj] = append(anyReg[r.vobj], r)
	}
	// command tree
	parent := map[string]string{}
	for _, f := range p.Syntax {
		ast.Inspect(f, func(m ast.Node) bool {
			call, ok := m.(*ast.CallExpr)
			if !ok {
				return true
			}
			sel, ok := unparen(call.Fun).(*ast.SelectorExpr)
			if !ok || sel.Sel.Name != "AddCommand" {
				return true
			}
			for _, a := range call.Args {
				parent[types.ExprString(a)] = types.ExprString(sel.X)
			}
			return true
		})
	}
	// reads of option storage anywhere in the package (a read = any use that is not `&v` given to a registrar and not a pure assignment target)
	readAnywhere := map[types.Object]bool{}
	for _, f := range p.Syntax {
		walkStack(f, func(m ast.Node, stack []ast.Node) bool {
			id, ok := m.(*ast.Ident)
			if !ok {
				return true
			}
			o := info.Uses[id]
			if o == nil || anyReg[o] == nil {
				return true
			}
			if len(stack) >= 1 {
				if u, ok := stack[len(stack)-1].(*ast.UnaryExpr); ok && u.Op == token.AND {
					return true // address given to the registrar
				}
				if as, ok := stack[len(stack)-1].(*ast.AssignStmt); ok && as.Tok == token.ASSIGN {
					for _, l := range as.Lhs {
						if l == ast.Expr(id) {
							return true
						}
					}
				}
			}
			readAnywhere[o] = true
			return true
		})
	}
	// run functions of each command literal
	for _, f := range p.Syntax {
		for _, d := range f.Decls {
			gd, ok := d.(*ast.GenDecl)
			if !ok {
				continue
			}
			for _, sp := range gd.Specs {
				vs, ok := sp.(*ast.ValueSpec)
				if !ok || len(vs.Names) != 1 || len(vs.Values) != 1 {
					continue
				}
				cmdVar := vs.Names[0].Name
				var lit *ast.CompositeLit
				if u, ok := unparen(vs.Values[0]).(*ast.UnaryExpr); ok && u.Op == token.AND {
					lit, _ = unparen(u.X).(*ast.CompositeLit)
				}
				if lit == nil {
					continue
				}
				if t := info.TypeOf(lit); t == nil || !strings.HasSuffix(t.String(), "cobra.Command") {
					continue
				}
				nCmds++
				mine := map[types.Object]bool{}
				for a := cmdVar; a != ""; a = parent[a] {
					for o := range own[a] {
						mine[o] = true
					}
					if len(mine) > 10000 {
						break
					}
				}
				foreign := map[types.Object]token.Pos{}
				for _, el := range lit.Elts {
					kv, ok := el.(*ast.KeyValueExpr)
					if !ok {
						continue
					}
					k, _ := kv.Key.(*ast.Ident)
					if k == nil || !(strings.HasSuffix(k.Name, "Run") || strings.HasSuffix(k.Name, "RunE")) {
						continue
					}
					fl, ok := unparen(kv.Value).(*ast.FuncLit)
					if !ok {
						continue
					}
					ast.Inspect(fl.Body, func(q ast.Node) bool {
						if id, ok := q.(*ast.Ident); ok {
							if o := info.Uses[id]; o != nil && anyReg[o] != nil && !mine[o] {
								if _, seen := foreign[o]; !seen {
									foreign[o] = id.Pos()
								}
							}
						}
						return true
					})
				}
				if len(foreign) == 0 {
					c.OK(rule, cmdVar, lit.Pos(), "the run function reads only options registered by the command or its ancestors")
					continue
				}
				// a dead own option of the same type?
				reported := false
				for fo, pos := range foreign {
					for o, r := range own[cmdVar] {
						if !readAnywhere[o] && types.Identical(o.Type(), fo.Type()) {
							nviol++
							reported = true
							other := anyReg[fo][0]
							c.Violation(rule, cmdVar+"/--"+r.flag, pos, fmt.Sprintf("%s reads `%s`, the storage of --%s of %s, which %s does not register, while the storage `%s` of its own option --%s is never read: the option given to this command is ignored and another command's default decides", cmdVar, fo.Name(), other.flag, other.cmdVar, cmdVar, o.Name(), r.flag)).Clause = clause
						}
					}
				}
				// reads of another command's option storage confirmed by hand on the reference tree
				// (each sees the other command's registered default; recorded as notes). Any other such
				// read is new: the value is not one the user of this command can set.
				if !reported {
					for fo, pos := range foreign {
						if !optOwnConfirmed[cmdVar+":"+fo.Name()] {
							nviol++
							reported = true
							other := anyReg[fo][0]
							c.Violation(rule, cmdVar+"/reads "+fo.Name(), pos, fmt.Sprintf("%s reads `%s`, the storage of --%s of %s, which %s does not register: what it sees is that command's default (or the value the last registration left there), never something the user of %s can set", cmdVar, fo.Name(), other.flag, other.cmdVar, cmdVar, cmdVar)).Clause = clause
						}
					}
				}
				if !reported {
					var names []string
					for fo := range foreign {
						names = append(names, fo.Name())
					}
					sort.Strings(names)
					c.Note(rule, cmdVar, lit.Pos(), cmdVar+" reads option storage registered by other commands only ("+strings.Join(names, ", ")+"): it sees their registered defaults; no option of its own is left unread, so nothing the user passes is ignored")
				}
			}
		}
	}
	return
}

// ---------------------------------------------------------------------------------------------
// MAKE-APPEND: `x = make([]T, n)` (n not the constant 0) gives x n zero elements; filling it with
// append (directly, or through a method that appends to that field of its receiver) leaves the n
// zero values in front of the real ones. Accepted: make([]T, 0, n) + append, make([]T, n) + x[i] = v.
func (c *Ctx) makeAppend(rule string, funcs []*FuncInfo, clause string) (n, nviol int) {
	c.indexDecls()
	// methods that append to a field of their receiver
	appender := map[*types.Func]*types.Var{}
	for g, fd := range c.declOf {
		if fd.Recv == nil || fd.Body == nil || len(fd.Recv.List) != 1 || len(fd.Recv.List[0].Names) != 1 {
			continue
		}
		ginfo := c.declPkg[g].TypesInfo
		recv := ginfo.Defs[fd.Recv.List[0].Names[0]]
		ast.Inspect(fd.Body, func(m ast.Node) bool {
			as, ok := m.(*ast.AssignStmt)
			if !ok || len(as.Lhs) != 1 || len(as.Rhs) != 1 {
				return true
			}
			sel, ok := unparen(as.Lhs[0]).(*ast.SelectorExpr)
			if !ok || identObj(ginfo, sel.X) != recv {
				return true
			}
			call, ok := unparen(as.Rhs[0]).(*ast.CallExpr)
			if !ok || len(call.Args) < 2 {
				return true
			}
			if id, ok := unparen(call.Fun).(*ast.Ident); ok {
				if b, ok := ginfo.Uses[id].(*types.Builtin); ok && b.Name() == "append" {
					if fv, ok := ginfo.Uses[sel.Sel].(*types.Var); ok && fv.IsField() && c.canon(ginfo, call.Args[0], nil) == c.canon(ginfo, as.Lhs[0], nil) {
						appender[g] = fv
					}
				}
			}
			return true
		})
	}
	for _, fi := range funcs {
		if fi.Decl.Body == nil {
			continue
		}
		info := fi.Pkg.TypesInfo
		type mk struct {
			lhs string
			pos token.Pos
			end token.Pos
			fld *types.Var
			own string // canon of the owner expression when lhs is owner.field
		}
		var makes []mk
		ast.Inspect(fi.Decl.Body, func(m ast.Node) bool {
			as, ok := m.(*ast.AssignStmt)
			if !ok || len(as.Lhs) != len(as.Rhs) {
				return true
			}
			for i, r := range as.Rhs {
				call, ok := unparen(r).(*ast.CallExpr)
				if !ok || len(call.Args) != 2 {
					continue
				}
				id, ok := unparen(call.Fun).(*ast.Ident)
				if !ok {
					continue
				}
				if b, ok := info.Uses[id].(*types.Builtin); !ok || b.Name() != "make" {
					continue
				}
				if _, isSlice := info.TypeOf(call.Args[0]).Underlying().(*types.Slice); !isSlice {
					continue
				}
				if tv, ok := info.Types[call.Args[1]]; ok && tv.Value != nil && tv.Value.String() == "0" {
					continue
				}
				x := mk{lhs: c.canon(info, as.Lhs[i], nil), pos: as.Pos(), end: as.End()}
				if sel, ok := unparen(as.Lhs[i]).(*ast.SelectorExpr); ok {
					if fv, ok := info.Uses[sel.Sel].(*types.Var); ok && fv.IsField() {
						x.fld = fv
						x.own = c.canon(info, sel.X, nil)
					}
				}
				makes = append(makes, x)
			}
			return true
		})
		for k, x := range makes {
			n++
			key := fmt.Sprintf("%s/make#%d %s", funcName(fi.Obj), k+1, x.lhs)
			indexed, appended := false, token.NoPos
			how := ""
			ast.Inspect(fi.Decl.Body, func(m ast.Node) bool {
				switch s := m.(type) {
				case *ast.AssignStmt:
					if s.Pos() <= x.pos {
						return true
					}
					for i, l := range s.Lhs {
						if ie, ok := unparen(l).(*ast.IndexExpr); ok && c.canon(info, ie.X, nil) == x.lhs {
							indexed = true
						}
						if c.canon(info, l, nil) == x.lhs && i < len(s.Rhs) {
							if call, ok := unparen(s.Rhs[i]).(*ast.CallExpr); ok && len(call.Args) >= 2 {
								if id, ok := unparen(call.Fun).(*ast.Ident); ok {
									if b, ok := info.Uses[id].(*types.Builtin); ok && b.Name() == "append" && c.canon(info, call.Args[0], nil) == x.lhs && !appended.IsValid() {
										appended, how = s.Pos(), "append("+x.lhs+", ...)"
									}
								}
							}
						}
					}
				case *ast.CallExpr:
					if s.Pos() <= x.end {
						return true
					}
					if id, ok := unparen(s.Fun).(*ast.Ident); ok {
						if b, ok := info.Uses[id].(*types.Builtin); ok && b.Name() == "copy" && len(s.Args) == 2 && c.canon(info, s.Args[0], nil) == x.lhs {
							indexed = true
						}
					}
					if g := calleeOf(info, s); g != nil && x.fld != nil && appender[g] == x.fld {
						if sel, ok := unparen(s.Fun).(*ast.SelectorExpr); ok && c.canon(info, sel.X, nil) == x.own && !appended.IsValid() {
							appended, how = s.Pos(), x.own+"."+g.Name()+"(...), which appends to "+x.fld.Name()
						}
					}
				}
				return true
			})
			switch {
			case appended.IsValid() && !indexed:
				nviol++
				c.Violation(rule, key, appended, fmt.Sprintf("%s is created with make(.., n), i.e. already holding n zero values, and is then filled by %s: the zero values stay in front of the real elements", x.lhs, how)).Clause = clause
			default:
				c.OK(rule, key, x.pos, "the slice made with a length is filled by index (or not appended to)")
			}
		}
	}
	return
}

// ---------------------------------------------------------------------------------------------
// COUNT (C10): the number of bootstrap trees by which TBE divides its accumulated distances is a
// counter of TBE itself: a local integer starting at 0, incremented exactly once per bootstrap
// tree taken from the channel, and assigned nowhere else. A count read from an object that lives
// longer than the call (a Supporter's progress) also counts the trees of earlier computations.
func (c *Ctx) tbeCount(rule string) int {
	fi := c.Func("support", "", "TBE")
	if fi == nil {
		return 0
	}
	clause := "transfer support equals one minus the mean over bootstrap trees"
	info := fi.Pkg.TypesInfo
	var rs *ast.RangeStmt
	ast.Inspect(fi.Decl.Body, func(n ast.Node) bool {
		if r, ok := n.(*ast.RangeStmt); ok && rs == nil {
			if ch, ok := info.TypeOf(r.X).Underlying().(*types.Chan); ok && strings.HasSuffix(ch.Elem().String(), "tree.Trees") {
				rs = r
			}
		}
		return true
	})
	if rs == nil {
		c.Undecided(rule, "support.TBE/loop", fi.Decl.Pos(), "loop over the bootstrap channel not found")
		return 0
	}
	n := 0
	seen := map[string]bool{}
	for _, call := range callsIn(fi.Decl.Body, true) {
		g := calleeOf(info, call)
		if g == nil || !(isRepoFunc(g, "support", "", "NormalizeTransferDistancesByDepth") || isRepoFunc(g, "support", "", "ReformatAvgDistance")) || len(call.Args) < 2 {
			continue
		}
		key := "support.TBE/" + g.Name() + "(n)"
		if seen[key] {
			continue
		}
		seen[key] = true
		n++
		arg := unparen(call.Args[1])
		v, _ := identObj(info, arg).(*types.Var)
		if v == nil || v.Parent() == nil || v.Parent() == fi.Pkg.Types.Scope() {
			c.Violation(rule, key, call.Pos(), "the number of bootstrap trees given to "+g.Name()+" is `"+c.canon(info, arg, nil)+"`, not a local counter of TBE").Clause = clause
			continue
		}
		bad := ""
		nInc := 0
		forAssignsTo(info, fi.Decl.Body, v, func(rhs ast.Expr, multi, incdec bool) {
			switch {
			case incdec:
				nInc++
			case multi || rhs == nil:
				bad = "assigned from a multi-valued expression"
			default:
				if tv, ok := info.Types[rhs]; ok && tv.Value != nil && tv.Value.String() == "0" {
					return
				}
				bad = "assigned " + c.canon(info, rhs, nil)
			}
		})
		// declaration with an initial value: var n int = e / n := e
		ast.Inspect(fi.Decl.Body, func(m ast.Node) bool {
			if vs, ok := m.(*ast.ValueSpec); ok {
				for i, nm := range vs.Names {
					if info.Defs[nm] == v && i < len(vs.Values) {
						if tv, ok := info.Types[vs.Values[i]]; !ok || tv.Value == nil || tv.Value.String() != "0" {
							bad = "initialised with " + c.canon(info, vs.Values[i], nil)
						}
					}
				}
			}
			return true
		})
		if bad != "" {
			c.Violation(rule, key, call.Pos(), fmt.Sprintf("the number of bootstrap trees `%s` is %s: it is not a count of the trees this call took from the channel (a value kept by an object that outlives the call also counts earlier computations)", v.Name(), bad)).Clause = clause
			continue
		}
		if nInc == 0 {
			c.Violation(rule, key, call.Pos(), "`"+v.Name()+"` is never incremented").Clause = clause
			continue
		}
		if ok, why := incOncePerIteration(info, rs.Body.List, v); !ok {
			c.Violation(rule, key, call.Pos(), "`"+v.Name()+"` does not count the bootstrap trees one by one: "+why).Clause = clause
			continue
		}
		c.OK(rule, key, call.Pos(), "`"+v.Name()+"` is a local counter starting at 0, incremented exactly once per bootstrap tree")
	}
	return n
}

// ---------------------------------------------------------------------------------------------
// COLLECT-ALL: a loop that ranges over a parameter holding the requested names ([]string, ...string, [][]string)
// and collects something per item (store into a map, append) must look at every item: an unlabeled
// `break` out of it that is not an error exit (no error variable assigned in the breaking block)
// silently drops the items after the current one.
func (c *Ctx) collectAll(rule string, funcs []*FuncInfo, clause string) (n, nviol int) {
	for _, fi := range funcs {
		if fi.Decl.Body == nil {
			continue
		}
		info := fi.Pkg.TypesInfo
		params := map[types.Object]bool{}
		sig := fi.Obj.Type().(*types.Signature)
		for i := 0; i < sig.Params().Len(); i++ {
			params[sig.Params().At(i)] = true
		}
		k := 0
		ast.Inspect(fi.Decl.Body, func(m ast.Node) bool {
			rs, ok := m.(*ast.RangeStmt)
			if !ok {
				return true
			}
			if !params[identObj(info, rs.X)] {
				return true
			}
			sl, isSlice := info.TypeOf(rs.X).Underlying().(*types.Slice)
			if !isSlice {
				return true
			}
			// requested items = names: []string (or groups of names [][]string)
			el := sl.Elem()
			if in, ok := el.Underlying().(*types.Slice); ok {
				el = in.Elem()
			}
			if b, ok := el.Underlying().(*types.Basic); !ok || b.Info()&types.IsString == 0 {
				return true
			}
			var items []types.Object
			for _, e := range []ast.Expr{rs.Key, rs.Value} {
				if e != nil {
					if o := identObj(info, e); o != nil {
						items = append(items, o)
					}
				}
			}
			mentionsItem := func(n ast.Node) bool {
				found := false
				ast.Inspect(n, func(q ast.Node) bool {
					if id, ok := q.(*ast.Ident); ok {
						for _, o := range items {
							if identObj(info, id) == o {
								found = true
							}
						}
					}
					return !found
				})
				return found
			}
			// does the body collect per item?
			collects := false
			ast.Inspect(rs.Body, func(q ast.Node) bool {
				as, ok := q.(*ast.AssignStmt)
				if !ok {
					return true
				}
				for i, l := range as.Lhs {
					if ie, ok := unparen(l).(*ast.IndexExpr); ok {
						if _, isMap := info.TypeOf(ie.X).Underlying().(*types.Map); isMap && (mentionsItem(ie.Index) || (i < len(as.Rhs) && mentionsItem(as.Rhs[i]))) {
							collects = true
						}
					}
					if i < len(as.Rhs) {
						if call, ok := unparen(as.Rhs[i]).(*ast.CallExpr); ok {
							if id, ok := unparen(call.Fun).(*ast.Ident); ok {
								if b, ok := info.Uses[id].(*types.Builtin); ok && b.Name() == "append" {
									collects = true
								}
							}
						}
					}
				}
				return true
			})
			if !collects {
				return true
			}
			k++
			n++
			key := fmt.Sprintf("%s/range %s#%d", funcName(fi.Obj), c.canon(info, rs.X, nil), k)
			bad := token.NoPos
			walkStack(rs.Body, func(q ast.Node, st []ast.Node) bool {
				switch x := q.(type) {
				case *ast.ForStmt, *ast.RangeStmt, *ast.SwitchStmt, *ast.TypeSwitchStmt, *ast.SelectStmt, *ast.FuncLit:
					return false // a break inside belongs to the inner construct
				case *ast.BranchStmt:
					if x.Tok != token.BREAK || x.Label != nil {
						return true
					}
					// error exit? an error-typed variable is assigned in the same block before the break
					isErrExit := false
					if len(st) > 0 {
						if blk, ok := st[len(st)-1].(*ast.BlockStmt); ok {
							for _, s := range blk.List {
								if s.Pos() >= x.Pos() {
									break
								}
								if as, ok := s.(*ast.AssignStmt); ok {
									for _, l := range as.Lhs {
										if t := info.TypeOf(l); t != nil && isErrorType(t) {
											isErrExit = true
										}
									}
								}
							}
						}
					}
					if !isErrExit && !bad.IsValid() {
						bad = x.Pos()
					}
				}
				return true
			})
			if bad.IsValid() {
				nviol++
				c.Violation(rule, key, bad, "the loop collects a result for each requested item of "+c.canon(info, rs.X, nil)+" and leaves with `break` without recording an error: the items after the current one are silently ignored").Clause = clause
			} else {
				c.OK(rule, key, rs.Pos(), "every requested item is looked at (no silent break)")
			}
			return true
		})
	}
	return
}

// ---------------------------------------------------------------------------------------------
// COMMENT-FORM (C01): the parser reads every `[...]` as ONE comment, so the writer must give every
// comment its own pair of brackets: each loop over a comment slice in the writer (Tree.Newick,
// Node.Newick and the functions of the package they call) writes both '[' and ']' inside its body.
// A loop that writes a separator between the comments and brackets around the lot (CommentsString)
// turns n comments into one when the text is read back.
func (c *Ctx) commentForm(rule string, wt, wn *FuncInfo) (n int) {
	clause := "node, root and branch comments are preserved"
	units := []*FuncInfo{wt, wn}
	seen := map[*types.Func]bool{wt.Obj: true, wn.Obj: true}
	for i := 0; i < len(units) && i < 16; i++ {
		for _, call := range callsIn(units[i].Decl.Body, true) {
			g := calleeOf(units[i].Pkg.TypesInfo, call)
			if g == nil || seen[g] || g.Pkg() != wt.Obj.Pkg() {
				continue
			}
			if gi := c.FuncOfObj(g); gi != nil && gi.Decl.Body != nil {
				seen[g] = true
				units = append(units, gi)
			}
		}
	}
	commentVars := map[types.Object]bool{}
	isCommentSlice := func(info *types.Info, e ast.Expr) bool {
		e = unparen(e)
		if call, ok := e.(*ast.CallExpr); ok {
			if g := calleeOf(info, call); g != nil {
				c.indexAccessors()
				if fv, ok := c.getters[g]; ok {
					return fv.Name() == "comment"
				}
			}
			return false
		}
		if sel, ok := e.(*ast.SelectorExpr); ok {
			if fv, ok := info.Uses[sel.Sel].(*types.Var); ok && fv.IsField() {
				return fv.Name() == "comment"
			}
		}
		if id, ok := e.(*ast.Ident); ok {
			// a parameter that receives a comment slice at some call, or a local defined from one
			if v := identObj(info, id); v != nil && commentVars[v] {
				return true
			}
		}
		return false
	}
	// propagate "is a comment slice" to helper parameters and single-definition locals
	for iter := 0; iter < 4; iter++ {
		for _, u := range units {
			info := u.Pkg.TypesInfo
			ast.Inspect(u.Decl.Body, func(m ast.Node) bool {
				switch x := m.(type) {
				case *ast.CallExpr:
					g := calleeOf(info, x)
					if g == nil || !seen[g] {
						return true
					}
					sig := g.Type().(*types.Signature)
					for i, a := range x.Args {
						if i < sig.Params().Len() && isCommentSlice(info, a) {
							commentVars[sig.Params().At(i)] = true
						}
					}
				case *ast.AssignStmt:
					if len(x.Lhs) == len(x.Rhs) {
						for i, r := range x.Rhs {
							if isCommentSlice(info, r) {
								if o := identObj(info, x.Lhs[i]); o != nil {
									commentVars[o] = true
								}
							}
						}
					}
				}
				return true
			})
		}
	}
	for _, u := range units {
		info := u.Pkg.TypesInfo
		k := 0
		ast.Inspect(u.Decl.Body, func(m ast.Node) bool {
			var body *ast.BlockStmt
			var over ast.Expr
			switch l := m.(type) {
			case *ast.RangeStmt:
				body, over = l.Body, l.X
			case *ast.ForStmt:
				if isIndexLoop(info, l) {
					be := unparen(l.Cond).(*ast.BinaryExpr)
					for _, side := range []ast.Expr{be.X, be.Y} {
						if call, ok := unparen(side).(*ast.CallExpr); ok && len(call.Args) == 1 {
							if id, ok := unparen(call.Fun).(*ast.Ident); ok && id.Name == "len" {
								body, over = l.Body, call.Args[0]
							}
						}
					}
				}
			}
			if body == nil || !isCommentSlice(info, over) {
				return true
			}
			k++
			n++
			open, close := false, false
			ast.Inspect(body, func(q ast.Node) bool {
				if bl, ok := q.(*ast.BasicLit); ok {
					if tv, ok := info.Types[bl]; ok && tv.Value != nil {
						s := ""
						if tv.Value.Kind() == constant.String {
							s = constant.StringVal(tv.Value)
						} else if r, ok := constant.Int64Val(tv.Value); ok && bl.Kind == token.CHAR {
							s = string(rune(r))
						}
						if strings.Contains(s, "[") {
							open = true
						}
						if strings.Contains(s, "]") {
							close = true
						}
					}
				}
				return true
			})
			key := fmt.Sprintf("%s/comments-loop#%d", funcName(u.Obj), k)
			if open && close {
				c.OK(rule, key, m.Pos(), "each comment is written inside its own brackets")
			} else {
				c.Violation(rule, key, m.Pos(), "the Newick writer reaches a loop over the comments of a node or branch that does not write '[' and ']' around each of them: the comments come out as one bracketed block and are read back as a single comment").Clause = clause
			}
			return true
		})
	}
	return
}

// ---------------------------------------------------------------------------------------------
// LEX-LOSSLESS (C01): a scanner function that consumes a run of runes in a loop returns, as the
// token's literal, the text of the buffer into which it wrote every rune it kept (the parser
// rebuilds comments and names from these literals). Returning anything else (a constant, a
// trimmed or re-built string) loses input text.
func (c *Ctx) lexLossless(rule string, pkgs ...string) (n int) {
	clause := "node, root and branch comments are preserved"
	for _, fi := range c.AllFuncs(pkgs...) {
		if fi.Decl.Body == nil || fi.Decl.Recv == nil {
			continue
		}
		sig := fi.Obj.Type().(*types.Signature)
		if sig.Results().Len() < 1 {
			continue
		}
		litIdx := sig.Results().Len() - 1
		if b, ok := sig.Results().At(litIdx).Type().Underlying().(*types.Basic); !ok || b.Info()&types.IsString == 0 {
			continue
		}
		info := fi.Pkg.TypesInfo
		isRead := func(call *ast.CallExpr) bool {
			g := calleeOf(info, call)
			return g != nil && g.Name() == "read" && g.Pkg() == fi.Obj.Pkg()
		}
		// a loop that reads
		var loop *ast.ForStmt
		ast.Inspect(fi.Decl.Body, func(m ast.Node) bool {
			if fs, ok := m.(*ast.ForStmt); ok && loop == nil {
				// the read may sit in the body or in the loop's own header (`for ch := s.read(); ch != eof; ch = s.read()`)
				for _, call := range callsIn(fs, false) {
					if isRead(call) {
						loop = fs
					}
				}
			}
			return true
		})
		if loop == nil {
			continue
		}
		n++
		key := funcName(fi.Obj) + "/literal"
		// buffers written with the rune read in the loop
		bufs := map[types.Object]bool{}
		for _, call := range callsIn(loop.Body, false) {
			g := calleeOf(info, call)
			if g == nil || !(g.Name() == "WriteRune" || g.Name() == "WriteString" || g.Name() == "WriteByte") {
				continue
			}
			if sel, ok := unparen(call.Fun).(*ast.SelectorExpr); ok {
				if o := identObj(info, sel.X); o != nil {
					bufs[o] = true
				}
			}
		}
		bad := ""
		nret := 0
		ast.Inspect(fi.Decl.Body, func(m ast.Node) bool {
			if _, isLit := m.(*ast.FuncLit); isLit {
				return false
			}
			rs, ok := m.(*ast.ReturnStmt)
			if !ok || len(rs.Results) != litIdx+1 || rs.Pos() < loop.End() {
				return true
			}
			nret++
			good := false
			res := unparen(rs.Results[litIdx])
			if v := identObj(info, res); v != nil {
				// a local (or named result) defined once as B.String()
				k, def := 0, ast.Expr(nil)
				forAssignsTo(info, fi.Decl.Body, v, func(rhs ast.Expr, multi, incdec bool) {
					k++
					def = rhs
				})
				if k == 1 && def != nil {
					res = unparen(def)
				}
			}
			if call, ok := res.(*ast.CallExpr); ok {
				if g := calleeOf(info, call); g != nil && g.Name() == "String" {
					if sel, ok := unparen(call.Fun).(*ast.SelectorExpr); ok && bufs[identObj(info, sel.X)] {
						good = true
					}
				}
			}
			if !good && bad == "" {
				bad = c.src(rs.Results[litIdx])
			}
			return true
		})
		switch {
		case len(bufs) == 0:
			c.Violation(rule, key, loop.Pos(), "the loop consumes runes and writes none of them into a buffer: the text of the token is lost (the parser rebuilds comments from token literals)").Clause = clause
		case bad != "":
			c.Violation(rule, key, loop.Pos(), "after consuming a run of runes the function returns "+bad+" as the token's literal instead of the buffer it filled: the consumed text is lost (the parser rebuilds comments from token literals)").Clause = clause
		case nret == 0:
			c.Undecided(rule, key, loop.Pos(), "no return after the reading loop")
		default:
			c.OK(rule, key, loop.Pos(), "the literal returned is the buffer filled by the loop")
		}
	}
	return
}

// ---------------------------------------------------------------------------------------------
// STORE-OR-ERR (C13): in the clause of the Nexus TRANSLATE parser that has read a key, every path
// to the end of the clause either stores the (key, value) pair into the table or records an error.
// A path doing neither (e.g. the branch taken when ';' follows the pair on the same line) silently
// drops that entry, and the trees keep the number instead of the name.
func (c *Ctx) translateStoreOrErr(rule string) int {
	fi := c.Func("io/nexus", "Parser", "parseTranslationTable")
	if fi == nil {
		return 0
	}
	clause := "Nexus with a translate table gives the same tree (names)"
	info := fi.Pkg.TypesInfo
	// the table: the map-typed named result (or the map returned)
	var table types.Object
	if fi.Decl.Type.Results != nil {
		for _, f := range fi.Decl.Type.Results.List {
			for _, nm := range f.Names {
				if o := info.Defs[nm]; o != nil {
					if _, isMap := o.Type().Underlying().(*types.Map); isMap {
						table = o
					}
				}
			}
		}
	}
	isStore := func(s ast.Stmt) bool {
		as, ok := s.(*ast.AssignStmt)
		if !ok {
			return false
		}
		for _, l := range as.Lhs {
			if ie, ok := unparen(l).(*ast.IndexExpr); ok {
				if _, isMap := info.TypeOf(ie.X).Underlying().(*types.Map); isMap && (table == nil || identObj(info, ie.X) == table) {
					return true
				}
			}
		}
		return false
	}
	isErr := func(s ast.Stmt) bool {
		as, ok := s.(*ast.AssignStmt)
		if !ok {
			return false
		}
		for i, l := range as.Lhs {
			if t := info.TypeOf(l); t != nil && isErrorType(t) {
				if i < len(as.Rhs) && isNilIdent(info, as.Rhs[i]) {
					continue
				}
				return true
			}
		}
		return false
	}
	// the clause that contains the store
	var clauseBody []ast.Stmt
	var clausePos token.Pos
	ast.Inspect(fi.Decl.Body, func(m ast.Node) bool {
		cc, ok := m.(*ast.CaseClause)
		if !ok || clauseBody != nil {
			return true
		}
		has := false
		for _, s := range cc.Body {
			ast.Inspect(s, func(q ast.Node) bool {
				if st, ok := q.(ast.Stmt); ok && isStore(st) {
					has = true
				}
				return true
			})
		}
		if has {
			// outermost clause only
			clauseBody, clausePos = cc.Body, cc.Pos()
			return false
		}
		return true
	})
	key := "io/nexus.Parser.parseTranslationTable/pair-stored"
	if clauseBody == nil {
		c.Violation(rule, key, fi.Decl.Pos(), "no store into the translation table found in the clause that reads a key: no entry is ever recorded").Clause = clause
		return 1
	}
	// walk: returns the set of states {done (stored or erred) / notDone} with which control falls out of the list; bad records an exit in state notDone
	var bad token.Pos
	var walk func(list []ast.Stmt, done bool) (outDone bool, falls bool)
	leave := func(pos token.Pos, done bool) {
		if !done && !bad.IsValid() {
			bad = pos
		}
	}
	walk = func(list []ast.Stmt, done bool) (bool, bool) {
		cur := done
		for _, s := range list {
			if isStore(s) || isErr(s) {
				cur = true
				continue
			}
			switch x := s.(type) {
			case *ast.BlockStmt:
				d, f := walk(x.List, cur)
				if !f {
					return d, false
				}
				cur = d
			case *ast.IfStmt:
				initDone := cur
				if x.Init != nil && (isStore(x.Init) || isErr(x.Init)) {
					initDone = true
				}
				d1, f1 := walk(x.Body.List, initDone)
				d2, f2 := initDone, true
				switch e := x.Else.(type) {
				case *ast.BlockStmt:
					d2, f2 = walk(e.List, initDone)
				case *ast.IfStmt:
					d2, f2 = walk([]ast.Stmt{e}, initDone)
				}
				switch {
				case !f1 && !f2:
					return true, false
				case f1 && f2:
					cur = d1 && d2
				case f1:
					cur = d1
				default:
					cur = d2
				}
			case *ast.SwitchStmt:
				all, anyFalls, hasDefault := true, false, false
				for _, cs := range x.Body.List {
					cc := cs.(*ast.CaseClause)
					if cc.List == nil {
						hasDefault = true
					}
					d, f := walk(cc.Body, cur)
					if f {
						anyFalls = true
						all = all && d
					}
				}
				if !hasDefault {
					anyFalls = true
					all = all && cur
				}
				if !anyFalls {
					return true, false
				}
				cur = all
			case *ast.BranchStmt, *ast.ReturnStmt:
				leave(x.Pos(), cur)
				return cur, false
			}
		}
		return cur, true
	}
	d, f := walk(clauseBody, false)
	if f {
		leave(clausePos, d)
	}
	if bad.IsValid() {
		c.Violation(rule, key, bad, "a path through the clause that has read a key of the TRANSLATE table neither stores the (key, value) pair nor records an error: that entry is silently dropped (the tips keep their number as name)").Clause = clause
	} else {
		c.OK(rule, key, clausePos, "every path that has read a key stores the pair or records an error")
	}
	return 1
}

// ---------------------------------------------------------------------------------------------
// SNAPSHOT (C03): neigh and br of a node are parallel slices. A loop that ranges over a snapshot
// (make + copy) of one of them does so because its body edits the node's adjacency; reading the
// other, LIVE slice of the same node at the loop index then pairs position i of the old order with
// position i of the new one. Inside such a loop the node's slices may only be indexed by the loop
// index through snapshots.
func (c *Ctx) snapshotParallel(rule string, funcs []*FuncInfo) (n, nviol int) {
	clause := "symmetric adjacency ... node, tip and branch enumerations agree"
	for _, fi := range funcs {
		if fi.Decl.Body == nil {
			continue
		}
		info := fi.Pkg.TypesInfo
		// snapshots: local S with copy(S, X.neigh / X.br) (getter forms unified by canon)
		snapOf := map[types.Object]string{} // local -> canon of the live slice copied
		for _, call := range callsIn(fi.Decl.Body, true) {
			id, ok := unparen(call.Fun).(*ast.Ident)
			if !ok || len(call.Args) != 2 {
				continue
			}
			if b, ok := info.Uses[id].(*types.Builtin); !ok || b.Name() != "copy" {
				continue
			}
			dst := identObj(info, call.Args[0])
			src := c.canon(info, call.Args[1], nil)
			if dst != nil && (strings.HasSuffix(src, ".neigh") || strings.HasSuffix(src, ".br")) {
				snapOf[dst] = src
			}
		}
		if len(snapOf) == 0 {
			continue
		}
		ast.Inspect(fi.Decl.Body, func(m ast.Node) bool {
			rs, ok := m.(*ast.RangeStmt)
			if !ok || rs.Key == nil {
				return true
			}
			s := identObj(info, rs.X)
			live, isSnap := snapOf[s]
			if !isSnap {
				return true
			}
			idx := identObj(info, rs.Key)
			if idx == nil {
				return true
			}
			n++
			owner := live[:strings.LastIndex(live, ".")]
			key := fmt.Sprintf("%s/range %s (snapshot of %s)", funcName(fi.Obj), s.Name(), live)
			bad := token.NoPos
			badExpr := ""
			ast.Inspect(rs.Body, func(q ast.Node) bool {
				ie, ok := q.(*ast.IndexExpr)
				if !ok || identObj(info, ie.Index) != idx {
					return true
				}
				x := c.canon(info, ie.X, nil)
				if (x == owner+".neigh" || x == owner+".br") && !bad.IsValid() {
					bad, badExpr = ie.Pos(), c.src(ie)
				}
				return true
			})
			if bad.IsValid() {
				nviol++
				c.Violation(rule, key, bad, fmt.Sprintf("the loop ranges over a snapshot of %s (its body edits the node) but reads the live slice %s at the loop index: after an edit of an earlier neighbour, position %s of the live slice no longer belongs to the neighbour at position %s of the snapshot", live, badExpr, idx.Name(), idx.Name())).Clause = clause
			} else {
				c.OK(rule, key, rs.Pos(), "the node's parallel slices are read at the loop index through snapshots only")
			}
			return true
		})
	}
	return
}

// ---------------------------------------------------------------------------------------------
// INDEX-SYNC (C15): a name index built from the tree before a loop (NewNodeIndex) and consulted
// inside the loop must be told about every node the loop adds to the tree (AddNode of the node
// returned by the inserting call); otherwise a later item that refers to a tip inserted by an
// earlier one is silently skipped.
func (c *Ctx) indexSync(rule string, funcs []*FuncInfo) (n, nviol int) {
	clause := "add exactly the requested tips"
	createsNode := func(g *types.Func) bool {
		gi := c.FuncOfObj(g)
		if gi == nil || gi.Decl.Body == nil {
			return false
		}
		sig := g.Type().(*types.Signature)
		if sig.Results().Len() == 0 || !strings.HasSuffix(sig.Results().At(0).Type().String(), "tree.Node") {
			return false
		}
		return c.reaches(g, func(h *types.Func) bool { return isRepoFunc(h, "tree", "Tree", "NewNode") }, 3, map[*types.Func]bool{})
	}
	for _, fi := range funcs {
		if fi.Decl.Body == nil {
			continue
		}
		info := fi.Pkg.TypesInfo
		// locals holding an index built from the tree
		idxVars := map[types.Object]bool{}
		ast.Inspect(fi.Decl.Body, func(m ast.Node) bool {
			if as, ok := m.(*ast.AssignStmt); ok && len(as.Rhs) == 1 {
				if call, ok := unparen(as.Rhs[0]).(*ast.CallExpr); ok && isRepoFunc(calleeOf(info, call), "tree", "", "NewNodeIndex") && len(as.Lhs) >= 1 {
					if o := identObj(info, as.Lhs[0]); o != nil {
						idxVars[o] = true
					}
				}
			}
			return true
		})
		// an index handed in as a parameter (the phase that inserts, split from the one that builds it)
		sigI := fi.Obj.Type().(*types.Signature)
		for i := 0; i < sigI.Params().Len(); i++ {
			if strings.HasSuffix(strings.ToLower(sigI.Params().At(i).Type().String()), "tree.nodeindex") {
				idxVars[sigI.Params().At(i)] = true
			}
		}
		if len(idxVars) == 0 {
			continue
		}
		{
			body := fi.Decl.Body
			// the index is consulted and nodes are inserted in the same function, one of the two in a loop
			var consulted types.Object
			var inserts []*ast.CallExpr
			added := map[types.Object]bool{} // node variables given to AddNode of the index
			for _, call := range callsIn(body, true) {
				g := calleeOf(info, call)
				if g == nil {
					continue
				}
				if sel, ok := unparen(call.Fun).(*ast.SelectorExpr); ok && idxVars[identObj(info, sel.X)] {
					switch g.Name() {
					case "GetNode":
						consulted = identObj(info, sel.X)
					case "AddNode":
						for _, a := range call.Args {
							if o := identObj(info, a); o != nil {
								added[o] = true
							}
						}
					}
					continue
				}
				if inRepo(g) && g.Pkg() == fi.Obj.Pkg() && createsNode(g) {
					inLoop := false
					for _, a := range stackTo(body, call) {
						switch a.(type) {
						case *ast.RangeStmt, *ast.ForStmt:
							inLoop = true
						}
					}
					if inLoop {
						inserts = append(inserts, call)
					}
				}
			}
			if consulted == nil || len(inserts) == 0 {
				continue
			}
			for _, ins := range inserts {
				n++
				key := fmt.Sprintf("%s/%s→%s.AddNode", funcName(fi.Obj), calleeOf(info, ins).Name(), consulted.Name())
				// the variable receiving the created node
				var res types.Object
				ast.Inspect(body, func(q ast.Node) bool {
					if as, ok := q.(*ast.AssignStmt); ok && len(as.Rhs) == 1 && unparen(as.Rhs[0]) == ast.Expr(ins) && len(as.Lhs) >= 1 {
						res = identObj(info, as.Lhs[0])
					}
					return true
				})
				if res != nil && added[res] {
					c.OK(rule, key, ins.Pos(), "the node created in the loop is added to the index the loop consults")
				} else {
					nviol++
					c.Violation(rule, key, ins.Pos(), fmt.Sprintf("names are looked up in the index %s, built beforehand, and nodes are added to the tree with %s in a loop without adding them to %s: a later group whose existing member was inserted by an earlier group is silently skipped", consulted.Name(), calleeOf(info, ins).Name(), consulted.Name())).Clause = clause
				}
			}
		}
	}
	return
}

// ---------------------------------------------------------------------------------------------
// SHADOW-RESULT: in a function whose error result is named (err), an inner `err := f()` declares
// another variable; if the branch taken when that inner error is non-nil neither returns a value
// explicitly nor leaves the process, the function goes on to its bare `return` and reports the
// OUTER err, still nil: the failure is logged at best and the caller (cobra: the exit status) sees
// success.
func (c *Ctx) shadowResult(rule string, pkgs []*packages.Package, clause string) (n, nviol int) {
	for _, p := range pkgs {
		info := p.TypesInfo
		for _, f := range p.Syntax {
			walkStack(f, func(m ast.Node, stack []ast.Node) bool {
				var ft *ast.FuncType
				var body *ast.BlockStmt
				switch x := m.(type) {
				case *ast.FuncDecl:
					ft, body = x.Type, x.Body
				case *ast.FuncLit:
					ft, body = x.Type, x.Body
				}
				if ft == nil || body == nil || ft.Results == nil {
					return true
				}
				var res types.Object
				for _, fl := range ft.Results.List {
					for _, nm := range fl.Names {
						if o := info.Defs[nm]; o != nil && isErrorType(o.Type()) {
							res = o
						}
					}
				}
				localRes := false
				if res == nil {
					// or a local error variable, declared at the top of the body, that the function's
					// last statement returns (`var err error ... return err`)
					if len(body.List) > 0 {
						if rt, ok := body.List[len(body.List)-1].(*ast.ReturnStmt); ok && len(rt.Results) > 0 {
							if o := identObj(info, rt.Results[len(rt.Results)-1]); o != nil && isErrorType(o.Type()) {
								for _, st := range body.List {
									if ds, ok := st.(*ast.DeclStmt); ok {
										if gd, ok := ds.Decl.(*ast.GenDecl); ok {
											for _, sp := range gd.Specs {
												if vs, ok := sp.(*ast.ValueSpec); ok {
													for _, nm := range vs.Names {
														if info.Defs[nm] == o {
															res, localRes = o, true
														}
													}
												}
											}
										}
									}
								}
							}
						}
					}
				}
				if res == nil {
					return true
				}
				n++
				// inner definitions of a variable with the same name
				ast.Inspect(body, func(q ast.Node) bool {
					if lit, ok := q.(*ast.FuncLit); ok && lit.Body != body {
						return false // its own results
					}
					is, ok := q.(*ast.IfStmt)
					if !ok || is.Init == nil {
						return true
					}
					as, ok := is.Init.(*ast.AssignStmt)
					if !ok || as.Tok != token.DEFINE {
						return true
					}
					var inner types.Object
					for _, l := range as.Lhs {
						if id, ok := unparen(l).(*ast.Ident); ok && id.Name == res.Name() {
							if o := info.Defs[id]; o != nil && o != res && isErrorType(o.Type()) {
								inner = o
							}
						}
					}
					if inner == nil {
						return true
					}
					// the condition tests the inner error for non-nil
					to, trueIsNonNil, ok := nilTest(info, is.Cond)
					if !ok || to != inner || !trueIsNonNil {
						return true
					}
					handled := false
					ast.Inspect(is.Body, func(r ast.Node) bool {
						switch y := r.(type) {
						case *ast.ReturnStmt:
							if len(y.Results) > 0 {
								handled = true
							}
						case *ast.CallExpr:
							if g := calleeOf(info, y); g != nil {
								if (g.Pkg() != nil && g.Pkg().Path() == "os" && g.Name() == "Exit") || g.Name() == "ExitWithMessage" || strings.HasPrefix(g.Name(), "Fatal") {
									handled = true
								}
							}
							if id, ok := unparen(y.Fun).(*ast.Ident); ok && id.Name == "panic" {
								handled = true
							}
						case *ast.BranchStmt:
							// break/continue: a loop deals with it - unless the outer variable is a
							// local that the function returns at its end and the branch leaves the loop
							// without having stored the error there (the caller is told nil)
							if !(localRes && y.Tok == token.BREAK) {
								handled = true
							}
						case *ast.AssignStmt:
							for _, l := range y.Lhs {
								if identObj(info, l) == res {
									handled = true
								}
							}
						}
						return true
					})
					key := c.enclosingFuncName(info, append(append([]ast.Node{}, stack...), m)) + "/" + c.canon(info, as.Rhs[0], nil)
					if handled {
						return true
					}
					nviol++
					c.Violation(rule, key, as.Pos(), fmt.Sprintf("`%s := ...` declares a new variable that hides the error variable %s the function returns at its end; when it is non-nil the branch neither returns it, stores it in the outer variable nor stops, so the function reaches its final return with the outer %s still nil: the failure is not reported to the caller", res.Name(), res.Name(), res.Name())).Clause = clause
					return true
				})
				return true
			})
		}
	}
	c.Trivial(rule, "scan", token.NoPos, fmt.Sprintf("%d functions with a named error result examined", n))
	return
}

// ---------------------------------------------------------------------------------------------
// BUF-FLUSH: what is written through a bufio.Writer reaches the file only at Flush. For every
// `w := bufio.NewWriter(f)`: Flush is called, and it is not merely deferred while f is closed by an
// ordinary (non-deferred) call in the same function - the deferred Flush would then run after the
// close and the buffered tail (or the whole output, if it is smaller than the buffer) is lost.
func (c *Ctx) bufFlush(rule string, pkgs []*packages.Package, clause string) (n, nviol int) {
	for _, p := range pkgs {
		for _, file := range p.Syntax {
			info := p.TypesInfo
			walkStack(file, func(m ast.Node, stack []ast.Node) bool {
				as, ok := m.(*ast.AssignStmt)
				if !ok || len(as.Lhs) != 1 || len(as.Rhs) != 1 {
					return true
				}
				call, ok := unparen(as.Rhs[0]).(*ast.CallExpr)
				if !ok || len(call.Args) < 1 {
					return true
				}
				g := calleeOf(info, call)
				if g == nil || g.Pkg() == nil || g.Pkg().Path() != "bufio" || !strings.HasPrefix(g.Name(), "NewWriter") {
					return true
				}
				w := identObj(info, as.Lhs[0])
				under := identObj(info, call.Args[0])
				if w == nil {
					return true
				}
				n++
				body := enclosingBody(append(append([]ast.Node{}, stack...), m))
				if body == nil {
					return true
				}
				key := c.enclosingFuncName(info, stack) + "/" + w.Name() + ".Flush"
				flushPlain, flushDeferred := false, false
				closePlain, flushDeferredPos, closeDeferredPos := token.NoPos, token.NoPos, token.NoPos
				walkStack(body, func(q ast.Node, st []ast.Node) bool {
					cl, ok := q.(*ast.CallExpr)
					if !ok {
						return true
					}
					deferred := false
					if len(st) > 0 {
						if _, isDefer := st[len(st)-1].(*ast.DeferStmt); isDefer {
							deferred = true
						}
					}
					h := calleeOf(info, cl)
					if h == nil {
						return true
					}
					if sel, ok := unparen(cl.Fun).(*ast.SelectorExpr); ok && identObj(info, sel.X) == w && h.Name() == "Flush" {
						if deferred {
							flushDeferred = true
							flushDeferredPos = cl.Pos()
						} else {
							flushPlain = true
						}
						return true
					}
					if under == nil {
						return true
					}
					closes := false
					if sel, ok := unparen(cl.Fun).(*ast.SelectorExpr); ok && identObj(info, sel.X) == under && h.Name() == "Close" {
						closes = true
					}
					if strings.Contains(strings.ToLower(h.Name()), "close") {
						for _, a := range cl.Args {
							if identObj(info, a) == under {
								closes = true
							}
						}
					}
					if closes && deferred {
						// deferred calls run last-in-first-out: a close deferred AFTER the flush runs before it
						if cl.Pos() > closeDeferredPos {
							closeDeferredPos = cl.Pos()
						}
						return true
					}
					if closes && !closePlain.IsValid() {
						closePlain = cl.Pos()
					}
					return true
				})
				switch {
				case !flushPlain && !flushDeferred:
					nviol++
					c.Violation(rule, key, as.Pos(), "output is written through the buffered writer "+w.Name()+" and Flush is never called: the buffered tail never reaches the file").Clause = clause
				case flushDeferred && !flushPlain && closePlain.IsValid():
					nviol++
					c.Violation(rule, key, closePlain, "Flush of the buffered writer "+w.Name()+" is only deferred while "+under.Name()+" is closed by an ordinary call before the function returns: the flush runs after the close, and the buffered output (all of it when it is smaller than the buffer) is lost").Clause = clause
				case flushDeferred && !flushPlain && closeDeferredPos.IsValid() && closeDeferredPos > flushDeferredPos:
					nviol++
					c.Violation(rule, key, closeDeferredPos, "Flush of the buffered writer "+w.Name()+" is deferred BEFORE the close of "+under.Name()+" is deferred: deferred calls run in reverse order, so the file is closed first and the flush that follows fails silently (the buffered tail, or everything when it is smaller than the buffer, is lost)").Clause = clause
				default:
					c.OK(rule, key, as.Pos(), "the buffered writer is flushed before its file is closed")
				}
				return true
			})
		}
	}
	return
}

// ---------------------------------------------------------------------------------------------
// EDGE-CACHE (C09): AddBipartition re-creates the branch of every node it moves under the new
// internal node. A branch of tree T remembered in a variable outside the loop that calls
// T.AddBipartition (a slice of T's tip branches filled beforehand) is therefore dead after the
// first call that moves its node; using such a variable inside that loop writes to a branch that no
// longer belongs to the tree.
func (c *Ctx) edgeCache(rule string, funcs []*FuncInfo) (n, nviol int) {
	clause := "tip branches carry their mean length"
	holdsEdges := func(t types.Type) bool {
		for i := 0; i < 3; i++ {
			switch u := t.Underlying().(type) {
			case *types.Slice:
				t = u.Elem()
				continue
			case *types.Map:
				t = u.Elem()
				continue
			case *types.Array:
				t = u.Elem()
				continue
			}
			break
		}
		return strings.HasSuffix(t.String(), "tree.Edge")
	}
	for _, fi := range funcs {
		if fi.Decl.Body == nil {
			continue
		}
		info := fi.Pkg.TypesInfo
		ast.Inspect(fi.Decl.Body, func(m ast.Node) bool {
			var body *ast.BlockStmt
			switch l := m.(type) {
			case *ast.RangeStmt:
				body = l.Body
			case *ast.ForStmt:
				body = l.Body
			default:
				return true
			}
			var recv types.Object
			for _, call := range callsIn(body, false) {
				if isRepoFunc(calleeOf(info, call), "tree", "Tree", "AddBipartition") {
					if sel, ok := unparen(call.Fun).(*ast.SelectorExpr); ok {
						recv = identObj(info, sel.X)
					}
				}
			}
			if recv == nil {
				return true
			}
			n++
			key := funcName(fi.Obj) + "/AddBipartition-loop"
			inner := declaredIn(info, body)
			// edge-holding variables declared outside the loop, used inside it
			bad := token.NoPos
			var badVar types.Object
			ast.Inspect(body, func(q ast.Node) bool {
				id, ok := q.(*ast.Ident)
				if !ok {
					return true
				}
				v, ok := info.Uses[id].(*types.Var)
				if !ok || v.IsField() || inner[v] || !holdsEdges(v.Type()) || v.Parent() == fi.Pkg.Types.Scope() {
					return true
				}
				// filled from the same tree outside the loop?
				fromTree := false
				walkStack(fi.Decl.Body, func(r ast.Node, st []ast.Node) bool {
					if r == m {
						return false // not inside the loop itself
					}
					as, ok := r.(*ast.AssignStmt)
					if !ok {
						return true
					}
					hit := false
					for _, l := range as.Lhs {
						base := unparen(l)
						if ie, ok := base.(*ast.IndexExpr); ok {
							base = unparen(ie.X)
						}
						if identObj(info, base) == v {
							hit = true
						}
					}
					if !hit {
						return true
					}
					for _, rh := range as.Rhs {
						if mentions(info, rh, recv) {
							fromTree = true
						}
					}
					for _, a := range st {
						if rs, ok := a.(*ast.RangeStmt); ok && mentions(info, rs.X, recv) {
							fromTree = true
						}
					}
					return true
				})
				if fromTree && !bad.IsValid() {
					bad, badVar = id.Pos(), v
				}
				return true
			})
			if bad.IsValid() {
				nviol++
				c.Violation(rule, key, bad, fmt.Sprintf("`%s` holds branches of %s taken before the loop that calls %s.AddBipartition, and is used inside that loop: AddBipartition re-creates the branch of every node it moves, so the remembered branch of a moved tip is no longer part of the tree and what is written to it is lost", badVar.Name(), recv.Name(), recv.Name())).Clause = clause
			} else {
				c.OK(rule, key, m.Pos(), "no branch of the tree remembered from before the loop is used inside it")
			}
			return false
		})
	}
	return
}

// ---------------------------------------------------------------------------------------------
// ENDS (C03/C17): a branch whose far end changes must be re-targeted whatever its orientation:
// `if e.Left() == old { e.setLeft(new) } else { e.setRight(new) }`. When one branch of such an
// orientation test re-targets one end of e, the other branch re-targets the other end of the same
// e to the same node; otherwise the edit is only right for one rooting.
func (c *Ctx) endsBothOrientations(rule string, funcs []*FuncInfo, clause string) (n, nviol int) {
	for _, fi := range funcs {
		if fi.Decl.Body == nil {
			continue
		}
		info := fi.Pkg.TypesInfo
		o := c.localExpansions(info, fi.Decl.Body)
		k := 0
		type set struct {
			edge, end, node string
			pos             token.Pos
		}
		setters := func(b ast.Node) []set {
			var out []set
			for _, call := range callsIn(b, false) {
				g := calleeOf(info, call)
				if g == nil || len(call.Args) != 1 {
					continue
				}
				end := ""
				switch {
				case isRepoFunc(g, "tree", "Edge", "setLeft"):
					end = "left"
				case isRepoFunc(g, "tree", "Edge", "setRight"):
					end = "right"
				default:
					continue
				}
				if sel, ok := unparen(call.Fun).(*ast.SelectorExpr); ok {
					out = append(out, set{c.canon(info, sel.X, o), end, c.canon(info, call.Args[0], o), call.Pos()})
				}
			}
			return out
		}
		ast.Inspect(fi.Decl.Body, func(m ast.Node) bool {
			is, ok := m.(*ast.IfStmt)
			if !ok || is.Else == nil {
				return true
			}
			ck := c.canon(info, is.Cond, o)
			a, b := setters(is.Body), setters(is.Else)
			for _, s := range a {
				// the test is about the orientation of the same branch
				if !strings.Contains(ck, s.edge+".left") && !strings.Contains(ck, s.edge+".right") {
					continue
				}
				k++
				n++
				key := fmt.Sprintf("%s/%s→%s#%d", funcName(fi.Obj), s.edge, s.node, k)
				other := "right"
				if s.end == "right" {
					other = "left"
				}
				found := false
				for _, t := range b {
					if t.edge == s.edge && t.end == other && t.node == s.node {
						found = true
					}
				}
				if found {
					c.OK(rule, key, s.pos, "the other orientation re-targets the other end of the same branch to the same node")
				} else {
					nviol++
					c.Violation(rule, key, is.Pos(), fmt.Sprintf("under %s the %s end of %s is re-targeted to %s, but the other branch of the test does not re-target its %s end to %s: when the branch points the other way it keeps its old end and no longer joins the nodes it is stored between", ck, s.end, s.edge, s.node, other, s.node)).Clause = clause
				}
			}
			return true
		})
	}
	return
}

// ---------------------------------------------------------------------------------------------
// RLOCK-WRITE (C11): a method that takes only the read lock of its receiver (RLock, never Lock)
// is run by several goroutines at once; it must not store into the receiver's fields nor into a
// slice/map reached from them (directly or through a local alias such as `b := r.buckets[i]`).
func (c *Ctx) rlockWrite(rule string, funcs []*FuncInfo) (n, nviol int) {
	clause := "no data races; same results as the single-threaded computation"
	for _, fi := range funcs {
		if fi.Decl.Body == nil || fi.Decl.Recv == nil {
			continue
		}
		info := fi.Pkg.TypesInfo
		r := recvObj(info, fi.Decl)
		if r == nil {
			continue
		}
		rlock, wlock := false, false
		for _, call := range callsIn(fi.Decl.Body, true) {
			sel, ok := unparen(call.Fun).(*ast.SelectorExpr)
			if !ok {
				continue
			}
			// r.RLock() or r.mux.RLock()
			base := unparen(sel.X)
			if s2, ok := base.(*ast.SelectorExpr); ok {
				base = unparen(s2.X)
			}
			if identObj(info, base) != r {
				continue
			}
			switch sel.Sel.Name {
			case "RLock":
				rlock = true
			case "Lock":
				wlock = true
			}
		}
		if !rlock || wlock {
			continue
		}
		n++
		key := funcName(fi.Obj) + "/read-locked"
		// locals aliasing storage reached from the receiver
		alias := map[types.Object]bool{}
		fromRecv := func(e ast.Expr) bool {
			found := false
			ast.Inspect(e, func(m ast.Node) bool {
				if id, ok := m.(*ast.Ident); ok {
					o := identObj(info, id)
					if o == r || alias[o] {
						found = true
					}
				}
				return !found
			})
			return found
		}
		refType := func(t types.Type) bool {
			switch t.Underlying().(type) {
			case *types.Slice, *types.Map, *types.Pointer:
				return true
			}
			return false
		}
		for iter := 0; iter < 3; iter++ {
			ast.Inspect(fi.Decl.Body, func(m ast.Node) bool {
				switch x := m.(type) {
				case *ast.AssignStmt:
					if len(x.Lhs) == len(x.Rhs) {
						for i, rh := range x.Rhs {
							if o := identObj(info, x.Lhs[i]); o != nil && o != r && refType(o.Type()) && fromRecv(rh) {
								alias[o] = true
							}
						}
					}
				case *ast.RangeStmt:
					if x.Value != nil && fromRecv(x.X) {
						if o := identObj(info, x.Value); o != nil && refType(o.Type()) {
							alias[o] = true
						}
					}
				}
				return true
			})
		}
		bad := token.NoPos
		what := ""
		ast.Inspect(fi.Decl.Body, func(m ast.Node) bool {
			var lhs []ast.Expr
			switch x := m.(type) {
			case *ast.AssignStmt:
				if x.Tok == token.DEFINE {
					return true
				}
				lhs = x.Lhs
			case *ast.IncDecStmt:
				lhs = []ast.Expr{x.X}
			default:
				return true
			}
			for _, l := range lhs {
				l = unparen(l)
				// a store through a selector or an index (not a plain local variable)
				switch l.(type) {
				case *ast.SelectorExpr, *ast.IndexExpr, *ast.StarExpr:
					if fromRecv(l) && !bad.IsValid() {
						bad, what = l.Pos(), c.src(l)
					}
				}
			}
			return true
		})
		if bad.IsValid() {
			nviol++
			c.Violation(rule, key, bad, fmt.Sprintf("%s holds only the read lock (RLock) and stores into %s, which is reached from its receiver: goroutines running it concurrently write the same memory (data race; entries can be duplicated or lost)", funcName(fi.Obj), what)).Clause = clause
		} else {
			c.OK(rule, key, fi.Decl.Pos(), "holds the read lock and stores nothing reached from its receiver")
		}
	}
	return
}

// ---------------------------------------------------------------------------------------------
// COPYLOCK (C11): a struct that contains a sync.Mutex / RWMutex / WaitGroup by value must not be
// copied: a method with a value receiver locks a private copy of the mutex (no exclusion at all, and
// a copy taken while the original is locked blocks for ever).
func (c *Ctx) copyLock(rule string) (n, nviol int) {
	clause := "no data races; always terminate"
	var holds func(t types.Type, depth int) bool
	holds = func(t types.Type, depth int) bool {
		if depth > 4 {
			return false
		}
		if nt, ok := t.(*types.Named); ok && nt.Obj().Pkg() != nil && nt.Obj().Pkg().Path() == "sync" {
			switch nt.Obj().Name() {
			case "Mutex", "RWMutex", "WaitGroup", "Once", "Cond":
				return true
			}
		}
		if st, ok := t.Underlying().(*types.Struct); ok {
			for i := 0; i < st.NumFields(); i++ {
				if holds(st.Field(i).Type(), depth+1) {
					return true
				}
			}
		}
		return false
	}
	for _, fi := range c.AllFuncs() {
		sig := fi.Obj.Type().(*types.Signature)
		check := func(v *types.Var, role string) {
			if v == nil {
				return
			}
			if _, isPtr := v.Type().(*types.Pointer); isPtr {
				return
			}
			if !holds(v.Type(), 0) {
				return
			}
			nviol++
			c.Violation(rule, funcName(fi.Obj)+"/"+role, fi.Decl.Pos(), fmt.Sprintf("%s takes %s of type %s by value; the type contains a lock, so every call works on a private copy of it: the lock excludes nobody, and a copy taken while the original is held blocks for ever", funcName(fi.Obj), role, types.TypeString(v.Type(), func(p *types.Package) string { return p.Name() }))).Clause = clause
		}
		if sig.Recv() != nil {
			if _, isPtr := sig.Recv().Type().(*types.Pointer); isPtr {
				if holds(sig.Recv().Type().(*types.Pointer).Elem(), 0) {
					n++
				}
			}
			check(sig.Recv(), "its receiver")
		}
		for i := 0; i < sig.Params().Len(); i++ {
			check(sig.Params().At(i), "parameter "+sig.Params().At(i).Name())
		}
	}
	c.Trivial(rule, "scan", token.NoPos, fmt.Sprintf("%d methods on lock-holding types, all with pointer receivers", n))
	return
}

// ---------------------------------------------------------------------------------------------
// ENTRY-NONNIL (C02): the single-tree entry point returns either an error or a tree. FirstTree of
// the Nexus / PhyloXML / Nextstrain documents returns nil when the document holds no tree, so every
// use of it in ReadTreeReader is either made under `doc.HasTrees` or followed by a nil test of the
// result that returns an error: a document without a tree must not come back as (nil, nil).
func (c *Ctx) entryNonNil(rule string) int {
	fi := c.Func("io/utils", "", "ReadTreeReader")
	if fi == nil {
		return 0
	}
	clause := "reading terminates and either reports an error or delivers trees"
	info := fi.Pkg.TypesInfo
	n := 0
	walkStack(fi.Decl.Body, func(m ast.Node, stack []ast.Node) bool {
		as, ok := m.(*ast.AssignStmt)
		if !ok || len(as.Rhs) != 1 {
			return true
		}
		call, ok := unparen(as.Rhs[0]).(*ast.CallExpr)
		if !ok {
			return true
		}
		g := calleeOf(info, call)
		if g == nil || g.Name() != "FirstTree" || !inRepo(g) {
			return true
		}
		n++
		pk := strings.TrimPrefix(g.Pkg().Path(), modPath+"/")
		key := "io/utils.ReadTreeReader/" + pk + ".FirstTree"
		res := identObj(info, as.Lhs[0])
		// (a) under doc.HasTrees
		guarded := false
		if conds, okc := c.pathConds(info, fi.Decl.Body, as, false); okc {
			for _, cd := range conds {
				if cd.Expr != nil && !cd.Neg {
					if sel, ok := unparen(cd.Expr).(*ast.SelectorExpr); ok && sel.Sel.Name == "HasTrees" {
						guarded = true
					}
				}
			}
		}
		// (b) followed, in the same statement list, by `if res == nil { return ..., <non-nil error> }`
		if !guarded && res != nil && len(stack) > 0 {
			var list []ast.Stmt
			// the statement of a statement list that holds the assignment: the assignment itself, or
			// the `if` whose init clause it is (`if t, err = doc.FirstTree(); err != nil {...}`)
			var holder ast.Stmt = as
			for i := len(stack) - 1; i >= 0 && list == nil; i-- {
				switch b := stack[i].(type) {
				case *ast.BlockStmt:
					list = b.List
				case *ast.CaseClause:
					list = b.Body
				case *ast.IfStmt:
					if b.Init == holder {
						holder = b
						continue
					}
					i = -1
				default:
					i = -1
				}
			}
			after := false
			for _, s := range list {
				if s == holder {
					after = true
					continue
				}
				if !after {
					continue
				}
				if is, ok := s.(*ast.IfStmt); ok {
					if to, nonNil, ok := nilTest(info, is.Cond); ok && to == res && !nonNil && c.leaves(info, is.Body.List) {
						guarded = true
					}
				}
			}
		}
		if guarded {
			c.OK(rule, key, as.Pos(), "a document without a tree is turned into an error")
		} else {
			c.Violation(rule, key, as.Pos(), "the result of FirstTree(), nil when the document holds no tree, is neither taken under HasTrees nor tested for nil before being returned: a well-formed document without a tree comes back as (nil, nil), neither an error nor a tree").Clause = clause
		}
		return true
	})
	return n
}

// ---------------------------------------------------------------------------------------------
// PEEK-IDX (C02): bufio.Reader.Peek(n) returns fewer than n bytes together with an error (io.EOF on
// short input). Indexing its result is only safe where the error is known to be nil or the length
// has been tested; tolerating io.EOF and indexing anyway panics on empty / one-byte input.
func (c *Ctx) peekIdx(rule string, pkgs []*packages.Package) (n, nviol int) {
	clause := "never panics"
	for _, p := range pkgs {
		info := p.TypesInfo
		for _, f := range p.Syntax {
			walkStack(f, func(m ast.Node, stack []ast.Node) bool {
				as, ok := m.(*ast.AssignStmt)
				if !ok || len(as.Lhs) != 2 || len(as.Rhs) != 1 {
					return true
				}
				call, ok := unparen(as.Rhs[0]).(*ast.CallExpr)
				if !ok {
					return true
				}
				g := calleeOf(info, call)
				if g == nil || g.Pkg() == nil || g.Pkg().Path() != "bufio" || g.Name() != "Peek" {
					return true
				}
				buf, errv := identObj(info, as.Lhs[0]), identObj(info, as.Lhs[1])
				if buf == nil {
					return true
				}
				n++
				body := enclosingBody(append(append([]ast.Node{}, stack...), m))
				if body == nil {
					return true
				}
				key := c.enclosingFuncName(info, stack) + "/Peek→" + buf.Name()
				bad := token.NoPos
				ast.Inspect(body, func(q ast.Node) bool {
					ie, ok := q.(*ast.IndexExpr)
					if !ok || identObj(info, ie.X) != buf || ie.Pos() < as.End() {
						return true
					}
					conds, okc := c.pathConds(info, body, ie, false)
					safe := false
					if okc {
						for _, cd := range flattenConds(conds) {
							if cd.Expr == nil {
								continue
							}
							// err == nil on the path (or `err != nil` negated by an early return)
							if to, nonNil, ok := nilTest(info, cd.Expr); ok && errv != nil && to == errv && (nonNil == cd.Neg) {
								safe = true
							}
							// a length test on the buffer
							if strings.Contains(c.canon(info, cd.Expr, nil), "len("+buf.Name()+")") {
								safe = true
							}
						}
					}
					// short-circuit in the same expression: len(buf) >= 2 && buf[0] == ...
					if !safe && !bad.IsValid() {
						bad = ie.Pos()
					}
					return true
				})
				if bad.IsValid() {
					nviol++
					c.Violation(rule, key, bad, fmt.Sprintf("%s holds the result of Peek, which is shorter than asked when the input is (io.EOF is returned with it); it is indexed on a path where neither `%s == nil` nor a test of len(%s) holds: empty or one-byte input panics with index out of range", buf.Name(), errName(errv), buf.Name())).Clause = clause
				} else {
					c.OK(rule, key, as.Pos(), "the peeked bytes are indexed only where the error is nil or the length is tested")
				}
				return true
			})
		}
	}
	c.Trivial(rule, "scan", token.NoPos, fmt.Sprintf("%d Peek results examined", n))
	return
}

func errName(o types.Object) string {
	if o == nil {
		return "err"
	}
	return o.Name()
}

// ---------------------------------------------------------------------------------------------
// SLOT-BY-SEARCH (C03/C07): an in-place replacement `x.neigh[k] = v` / `x.br[k] = e` names a slot of
// x by position. The position of a given neighbour is only known by searching for it (NodeIndex,
// EdgeIndex, a loop index over the same slices); a constant k assumes an order of the neighbours
// ("the parent is first") that holds for freshly parsed trees and fails after a re-rooting.
func (c *Ctx) slotBySearch(rule string, funcs []*FuncInfo, clause string) (n, nviol int) {
	neighF, brF, _, _ := c.nodeEdgeFields()
	if neighF == nil || brF == nil {
		return
	}
	for _, fi := range funcs {
		if fi.Decl.Body == nil {
			continue
		}
		info := fi.Pkg.TypesInfo
		ast.Inspect(fi.Decl.Body, func(m ast.Node) bool {
			as, ok := m.(*ast.AssignStmt)
			if !ok || as.Tok != token.ASSIGN {
				return true
			}
			for _, l := range as.Lhs {
				ie, ok := unparen(l).(*ast.IndexExpr)
				if !ok {
					continue
				}
				var fld *types.Var
				switch x := unparen(ie.X).(type) {
				case *ast.SelectorExpr:
					fld, _ = info.Uses[x.Sel].(*types.Var)
				case *ast.CallExpr:
					if g := calleeOf(info, x); g != nil {
						c.indexAccessors()
						fld = c.getters[g]
					}
				}
				if fld != neighF && fld != brF {
					continue
				}
				n++
				if tv, ok := info.Types[ie.Index]; ok && tv.Value != nil {
					nviol++
					c.Violation(rule, fmt.Sprintf("%s/%s", funcName(fi.Obj), c.canon(info, l, nil)), as.Pos(), fmt.Sprintf("%s is replaced at the constant position %s: which neighbour sits there depends on the order of the node's neighbours (after a re-rooting the parent is not the first one), so another neighbour than the intended one is overwritten", c.src(l), tv.Value.String())).Clause = clause
				}
			}
			return true
		})
	}
	c.Trivial(rule, "scan", token.NoPos, fmt.Sprintf("%d in-place stores into neigh/br examined, none at a constant position", n-nviol))
	return
}

// ---------------------------------------------------------------------------------------------
// FULL-LOOP: a designated loop does work for EVERY element of what it ranges over (it also handles
// the elements that come after any given one): it is a range loop or a counting loop whose
// condition only bounds the counter, and no unlabeled `break` leaves it. An early exit "once
// everything has been found" silently skips the later elements.
func (c *Ctx) fullLoop(rule, key string, fi *FuncInfo, inLoop func(info *types.Info, call *ast.CallExpr) bool, clause, what string) {
	info := fi.Pkg.TypesInfo
	var loop ast.Node
	var body *ast.BlockStmt
	walkStack(fi.Decl.Body, func(m ast.Node, stack []ast.Node) bool {
		call, ok := m.(*ast.CallExpr)
		if !ok || loop != nil || !inLoop(info, call) {
			return true
		}
		for i := len(stack) - 1; i >= 0; i-- {
			switch l := stack[i].(type) {
			case *ast.RangeStmt:
				loop, body = l, l.Body
			case *ast.ForStmt:
				loop, body = l, l.Body
			}
			if loop != nil {
				break
			}
		}
		return true
	})
	if loop == nil {
		c.Undecided(rule, key, fi.Decl.Pos(), "the loop that "+what+" was not found")
		return
	}
	if fs, ok := loop.(*ast.ForStmt); ok && !isIndexLoop(info, fs) {
		c.Violation(rule, key, fs.Pos(), "the loop that "+what+" stops on a condition other than the end of what it ranges over ("+c.src(fs.Cond)+"): the elements after that point are skipped").Clause = clause
		return
	}
	bad := token.NoPos
	walkStack(body, func(q ast.Node, st []ast.Node) bool {
		switch x := q.(type) {
		case *ast.ForStmt, *ast.RangeStmt, *ast.SwitchStmt, *ast.TypeSwitchStmt, *ast.SelectStmt, *ast.FuncLit:
			return false
		case *ast.BranchStmt:
			if x.Tok == token.BREAK && x.Label == nil && !bad.IsValid() {
				bad = x.Pos()
			}
		}
		return true
	})
	if bad.IsValid() {
		c.Violation(rule, key, bad, "the loop that "+what+" is left with `break`: what it does for the elements after the current one (not only the work the break is about) is skipped").Clause = clause
	} else {
		c.OK(rule, key, loop.Pos(), "the loop that "+what+" visits every element")
	}
}

// ---------------------------------------------------------------------------------------------
// CARRIED-BUF: a buffer (bytes.Buffer, strings.Builder) or slice declared OUTSIDE a loop over the
// input items, written inside the loop and also consumed inside it (Bytes/String/len/range, passed
// on), keeps what earlier items put into it unless it is reset or re-created in the loop: item k
// is then output together with items 1..k-1.
func (c *Ctx) carriedBuf(rule string, funcs []*FuncInfo, clause string) (n, nviol int) {
	isBufType := func(t types.Type) bool {
		s := t.String()
		return s == "bytes.Buffer" || s == "strings.Builder" || s == "*bytes.Buffer" || s == "*strings.Builder"
	}
	for _, fi := range funcs {
		if fi.Decl.Body == nil {
			continue
		}
		info := fi.Pkg.TypesInfo
		ast.Inspect(fi.Decl.Body, func(m ast.Node) bool {
			rs, ok := m.(*ast.RangeStmt)
			if !ok {
				return true
			}
			// loops over the items of the input: a channel of trees
			ch, isChan := info.TypeOf(rs.X).Underlying().(*types.Chan)
			if !isChan || !strings.HasSuffix(ch.Elem().String(), "tree.Trees") {
				return true
			}
			inner := declaredIn(info, rs.Body)
			type use struct{ write, read, reset bool }
			uses := map[types.Object]*use{}
			get := func(o types.Object) *use {
				if uses[o] == nil {
					uses[o] = &use{}
				}
				return uses[o]
			}
			walkStack(rs.Body, func(q ast.Node, st []ast.Node) bool {
				id, ok := q.(*ast.Ident)
				if !ok {
					return true
				}
				v, ok := info.Uses[id].(*types.Var)
				if !ok || v.IsField() || inner[v] || v.Parent() == fi.Pkg.Types.Scope() || !isBufType(v.Type()) {
					return true
				}
				// method called on it?
				if len(st) >= 2 {
					if sel, ok := st[len(st)-1].(*ast.SelectorExpr); ok && unparen(sel.X) == ast.Expr(id) {
						switch {
						case strings.HasPrefix(sel.Sel.Name, "Write"):
							get(v).write = true
						case sel.Sel.Name == "Reset" || sel.Sel.Name == "Truncate":
							get(v).reset = true
						case sel.Sel.Name == "Bytes" || sel.Sel.Name == "String" || sel.Sel.Name == "Len" || sel.Sel.Name == "WriteTo":
							get(v).read = true
						}
						return true
					}
				}
				// passed on / address taken: both a possible write and a read
				get(v).read = true
				return true
			})
			for v, u := range uses {
				if !u.write {
					continue
				}
				n++
				key := funcName(fi.Obj) + "/" + v.Name()
				switch {
				case u.read && !u.reset:
					nviol++
					c.Violation(rule, key, rs.Pos(), fmt.Sprintf("`%s` is declared before the loop over the input trees, filled and consumed inside it, and never reset there: what is output for the k-th tree also contains what was written for the trees before it", v.Name())).Clause = clause
				default:
					c.OK(rule, key, rs.Pos(), "buffer reset in the loop, or only consumed after it")
				}
			}
			return true
		})
	}
	return
}

// ---------------------------------------------------------------------------------------------
// GLOBAL-MUT (C11/C03): library packages keep no mutable state in package-level variables: a
// function of tree / io / support / hashmap ... that stores into a package-level variable (or calls
// a pointer-receiver method of one, e.g. a shared bytes.Buffer) makes independent calls on
// unrelated trees interfere when they run in different goroutines.
func (c *Ctx) globalMut(rule string, pkgRels []string, clause string) (n, nviol int) {
	for _, fi := range c.AllFuncs(pkgRels...) {
		if fi.Decl.Body == nil || fi.Obj.Name() == "init" {
			continue
		}
		info := fi.Pkg.TypesInfo
		scope := fi.Pkg.Types.Scope()
		isGlobal := func(e ast.Expr) *types.Var {
			for {
				switch x := unparen(e).(type) {
				case *ast.SelectorExpr:
					if _, isPkg := info.Uses[identOf(x.X)].(*types.PkgName); isPkg {
						return nil
					}
					e = x.X
					continue
				case *ast.IndexExpr:
					e = x.X
					continue
				case *ast.StarExpr:
					e = x.X
					continue
				case *ast.Ident:
					if v, ok := info.Uses[x].(*types.Var); ok && v.Parent() == scope {
						return v
					}
				}
				return nil
			}
		}
		n++
		bad := token.NoPos
		var bv *types.Var
		how := ""
		ast.Inspect(fi.Decl.Body, func(m ast.Node) bool {
			switch x := m.(type) {
			case *ast.AssignStmt:
				if x.Tok == token.DEFINE {
					return true
				}
				for _, l := range x.Lhs {
					if v := isGlobal(l); v != nil && !bad.IsValid() {
						bad, bv, how = l.Pos(), v, "assigned"
					}
				}
			case *ast.IncDecStmt:
				if v := isGlobal(x.X); v != nil && !bad.IsValid() {
					bad, bv, how = x.Pos(), v, "incremented"
				}
			case *ast.CallExpr:
				if sel, ok := unparen(x.Fun).(*ast.SelectorExpr); ok {
					if g := calleeOf(info, x); g != nil {
						if sig := g.Type().(*types.Signature); sig.Recv() != nil {
							if _, ptr := sig.Recv().Type().(*types.Pointer); ptr {
								if v := isGlobal(sel.X); v != nil && !bad.IsValid() {
									// addressable value with pointer-receiver method: mutation possible
									if _, isPtrVar := v.Type().(*types.Pointer); !isPtrVar {
										bad, bv, how = x.Pos(), v, "modified through "+g.Name()+"()"
									}
								}
							}
							// a package-level object behind an interface or a pointer (a shared hasher, buffer,
							// encoder): the methods that feed or reset it mutate what every call shares
							if v := isGlobal(sel.X); v != nil && !bad.IsValid() {
								_, isIface := v.Type().Underlying().(*types.Interface)
								_, isPtrVar := v.Type().(*types.Pointer)
								if isIface || isPtrVar {
									switch g.Name() {
									case "Reset", "Write", "WriteString", "WriteByte", "WriteRune", "Seed", "Grow", "Truncate", "ReadFrom", "Encode", "Push", "Pop":
										if !isErrorType(v.Type()) {
											bad, bv, how = x.Pos(), v, "fed or reset through "+g.Name()+"()"
										}
									}
								}
							}
						}
					}
				}
			case *ast.UnaryExpr:
				if x.Op == token.AND {
					if v := isGlobal(x.X); v != nil && !bad.IsValid() {
						bad, bv, how = x.Pos(), v, "handed out by address"
					}
				}
			}
			return true
		})
		if bad.IsValid() {
			nviol++
			c.Violation(rule, funcName(fi.Obj)+"/"+bv.Name(), bad, fmt.Sprintf("the package-level variable `%s` is %s in %s: calls of this function on unrelated trees share it, so two of them running in different goroutines corrupt each other's result (and a later call sees what an earlier one left)", bv.Name(), how, funcName(fi.Obj))).Clause = clause
		}
	}
	c.Trivial(rule, "scan", token.NoPos, fmt.Sprintf("%d library functions examined", n))
	return
}

func identOf(e ast.Expr) *ast.Ident {
	id, _ := unparen(e).(*ast.Ident)
	return id
}

// ---------------------------------------------------------------------------------------------
// ROTATE-ALL (C20): RotateInternalNodes shuffles the neighbours of every node that has at least two
// of them (the root of a rooted tree has exactly two children and no parent): the call of
// RotateNeighbors is unguarded, or its guard holds for every node with >= 2 neighbours.
func (c *Ctx) rotateAll(rule string) {
	fi := c.Func("tree", "Tree", "RotateInternalNodes")
	if fi == nil {
		return
	}
	info := fi.Pkg.TypesInfo
	for _, call := range callsIn(fi.Decl.Body, true) {
		if !isRepoFunc(calleeOf(info, call), "tree", "Node", "RotateNeighbors") {
			continue
		}
		sel, ok := unparen(call.Fun).(*ast.SelectorExpr)
		if !ok {
			continue
		}
		o := &canonOpts{subst: map[types.Object]string{}}
		if v := identObj(info, sel.X); v != nil {
			o.subst[v] = "$N"
		}
		key := "tree.Tree.RotateInternalNodes/every-node"
		conds, okc := c.pathConds(info, fi.Decl.Body, call, true)
		if !okc {
			c.Undecided(rule, key, call.Pos(), "guard shape not understood")
			return
		}
		var rel []cond
		for _, cd := range conds {
			if cd.Expr != nil && strings.Contains(c.canon(info, cd.Expr, o), "$N") {
				rel = append(rel, cd)
			}
		}
		code := c.inlineNneigh(c.inlineTip(c.condsToBexpr(info, rel, o)))
		spec := intCmp("len($N.neigh)", token.GEQ, 2)
		imp, wit, _, err := gfImplies(spec, code)
		if err != nil {
			c.Undecided(rule, key, call.Pos(), err.Error())
			return
		}
		c.Check(imp, rule, key, call.Pos(), "every node with at least two neighbours is rotated", "neighbours are shuffled only under "+code.String()+": a node with two neighbours (the root of a rooted tree, whose two children are then never exchanged) is skipped: "+wit).Clause = "rotate: every order of the children has the same probability"
		return
	}
	c.Undecided(rule, "tree.Tree.RotateInternalNodes/every-node", fi.Decl.Pos(), "no call of RotateNeighbors found")
}

// ---------------------------------------------------------------------------------------------
// RESOLVE-GUARD (C07): resolveRecur groups neighbours two by two, creating one node per round,
// exactly while the node still has more than three neighbours. A bound counted on another quantity
// (the list of neighbours to group, which at the root also contains what would be the parent)
// makes one round too many at an unrooted root: a degree-2 root and a duplicated split.
func (c *Ctx) resolveGuard(rule string) {
	fi := c.Func("tree", "Tree", "resolveRecur")
	if fi == nil {
		return
	}
	info := fi.Pkg.TypesInfo
	cur := paramObj(info, fi.Decl, 0)
	o := &canonOpts{subst: map[types.Object]string{cur: "$C"}}
	key := "tree.Tree.resolveRecur/grouping-loop"
	var loop *ast.ForStmt
	ast.Inspect(fi.Decl.Body, func(m ast.Node) bool {
		if fs, ok := m.(*ast.ForStmt); ok && loop == nil {
			for _, call := range callsIn(fs.Body, false) {
				if isRepoFunc(calleeOf(info, call), "tree", "Tree", "NewNode") {
					loop = fs
				}
			}
		}
		return true
	})
	if loop == nil || loop.Cond == nil {
		c.Undecided(rule, key, fi.Decl.Pos(), "the loop that creates the new internal nodes was not found")
		return
	}
	code := c.inlineNneigh(c.toBexpr(info, loop.Cond, o))
	spec := intCmp("len($C.neigh)", token.GTR, 3)
	eq, wit, _, err := gfEquiv(code, spec)
	if err != nil {
		c.Undecided(rule, key, loop.Pos(), err.Error())
		return
	}
	c.Check(eq, rule, key, loop.Pos(), "a new node is created exactly while the node has more than three neighbours", "the grouping loop runs while "+code.String()+", not while the node has more than three neighbours: the number of rounds differs at a node whose neighbour list is not 'parent + children' (the root of an unrooted tree): "+wit).Clause = "the resolved tree is binary ... only adds zero-length branches"
}

// ---------------------------------------------------------------------------------------------
// HASH-AFTER-CLEAR (C04): ClearBitSets resets the per-side hash codes of every branch to 0 along
// with the bit sets. Whoever calls it must recompute the hashes (ComputeEdgeHashes) afterwards,
// as ReinitIndexes and ReinitInternalIndexes do; "only the names changed, bit sets are enough"
// leaves every branch with hash 0, and no split of the tree is found in another tree's index.
func (c *Ctx) hashAfterClear(rule string) (n int) {
	clause := "branches of different trees on the same taxa compare equal exactly when they define the same split"
	for _, fi := range append(c.AllFuncs(), c.PkgLevelClosures()...) {
		if fi.Decl.Body == nil {
			continue
		}
		info := fi.Pkg.TypesInfo
		var clear, hash token.Pos
		for _, call := range callsIn(fi.Decl.Body, true) {
			g := calleeOf(info, call)
			switch {
			case isRepoFunc(g, "tree", "Tree", "ClearBitSets"):
				if !clear.IsValid() {
					clear = call.Pos()
				}
			case isRepoFunc(g, "tree", "Tree", "ComputeEdgeHashes") || isRepoFunc(g, "tree", "Tree", "ReinitIndexes") || isRepoFunc(g, "tree", "Tree", "ReinitInternalIndexes"):
				if call.Pos() > clear && clear.IsValid() {
					hash = call.Pos()
				}
			}
		}
		if !clear.IsValid() {
			continue
		}
		n++
		key := funcName(fi.Obj) + "/ClearBitSets→ComputeEdgeHashes"
		if hash.IsValid() {
			c.OK(rule, key, clear, "the hash codes zeroed with the bit sets are recomputed")
		} else {
			c.Violation(rule, key, clear, "ClearBitSets is called (it also zeroes the hash codes of every branch) and nothing recomputes them afterwards (ComputeEdgeHashes / ReinitIndexes): every branch keeps hash 0, so the same split in another tree is neither equal to it nor found in an index").Clause = clause
		}
	}
	return
}

// onlyIncrementsThrough: every use of the i-th parameter (a pointer to an integer) of g is a read
// `*p` or an increment `(*p)++` / `*p += k`; the pointer is not stored, passed on or assigned through.
func (c *Ctx) onlyIncrementsThrough(g *types.Func, i int) bool {
	gi := c.FuncOfObj(g)
	if gi == nil || gi.Decl.Body == nil {
		return false
	}
	info := gi.Pkg.TypesInfo
	p := paramObj(info, gi.Decl, i)
	if p == nil {
		return false
	}
	ok := true
	walkStack(gi.Decl.Body, func(m ast.Node, st []ast.Node) bool {
		id, isId := m.(*ast.Ident)
		if !isId || identObj(info, id) != p {
			return true
		}
		// must appear as *p (possibly parenthesised)
		k := len(st) - 1
		for k >= 0 {
			if _, isParen := st[k].(*ast.ParenExpr); isParen {
				k--
				continue
			}
			break
		}
		if k < 0 {
			ok = false
			return true
		}
		star, isStar := st[k].(*ast.StarExpr)
		if !isStar {
			ok = false
			return true
		}
		// what is done with *p
		j := k - 1
		for j >= 0 {
			if _, isParen := st[j].(*ast.ParenExpr); isParen {
				j--
				continue
			}
			break
		}
		if j >= 0 {
			switch x := st[j].(type) {
			case *ast.IncDecStmt:
				if x.Tok != token.INC {
					ok = false
				}
			case *ast.AssignStmt:
				for _, l := range x.Lhs {
					if unparen(l) == ast.Expr(star) && x.Tok != token.ADD_ASSIGN {
						ok = false
					}
				}
			case *ast.UnaryExpr:
				if x.Op == token.AND {
					ok = false
				}
			}
		}
		return true
	})
	return ok
}

// ---------------------------------------------------------------------------------------------
// CANDIDATES (C20): the uniform generator draws the branch to graft on from a list of candidates
// (`edges`, the slice indexed by the draw). Every branch the loop creates (ConnectNodes result,
// both new branches returned by GraftTipOnEdge) must be appended to that list; a branch left out
// is never grafted on, and the topologies that need it have probability zero.
func (c *Ctx) uniformCandidates(rule string) {
	fi := c.Func("tree", "", "RandomUniformBinaryTree")
	if fi == nil {
		return
	}
	clause := "drawing a 'uniform' tree gives every labelled topology the same probability"
	info := fi.Pkg.TypesInfo
	// the candidate list: the slice indexed by (a value drawn with) rand.Intn(len(list))
	var list types.Object
	for _, call := range callsIn(fi.Decl.Body, true) {
		g := calleeOf(info, call)
		if g == nil || g.Pkg() == nil || g.Pkg().Path() != "math/rand" || g.Name() != "Intn" || len(call.Args) != 1 {
			continue
		}
		if lc, ok := unparen(call.Args[0]).(*ast.CallExpr); ok && len(lc.Args) == 1 {
			if id, ok := unparen(lc.Fun).(*ast.Ident); ok && id.Name == "len" {
				list = identObj(info, lc.Args[0])
			}
		}
	}
	if list == nil {
		c.Undecided(rule, "tree.RandomUniformBinaryTree/candidates", fi.Decl.Pos(), "the list of candidate branches (drawn with Intn(len(list))) was not found")
		return
	}
	appended := map[types.Object]bool{}
	ast.Inspect(fi.Decl.Body, func(m ast.Node) bool {
		as, ok := m.(*ast.AssignStmt)
		if !ok || len(as.Lhs) != 1 || len(as.Rhs) != 1 || identObj(info, as.Lhs[0]) != list {
			return true
		}
		call, ok := unparen(as.Rhs[0]).(*ast.CallExpr)
		if !ok || len(call.Args) < 2 {
			return true
		}
		if id, ok := unparen(call.Fun).(*ast.Ident); !ok || id.Name != "append" || identObj(info, call.Args[0]) != list {
			return true
		}
		for _, a := range call.Args[1:] {
			if o := identObj(info, a); o != nil {
				appended[o] = true
			}
		}
		return true
	})
	n := 0
	ast.Inspect(fi.Decl.Body, func(m ast.Node) bool {
		as, ok := m.(*ast.AssignStmt)
		if !ok || len(as.Rhs) != 1 {
			return true
		}
		call, ok := unparen(as.Rhs[0]).(*ast.CallExpr)
		if !ok {
			return true
		}
		g := calleeOf(info, call)
		var created []types.Object
		switch {
		case isRepoFunc(g, "tree", "Tree", "ConnectNodes") && len(as.Lhs) == 1:
			created = append(created, identObj(info, as.Lhs[0]))
		case isRepoFunc(g, "tree", "Tree", "GraftTipOnEdge") && len(as.Lhs) == 4:
			created = append(created, identObj(info, as.Lhs[0]), identObj(info, as.Lhs[1]))
		}
		for _, o := range created {
			if o == nil {
				continue
			}
			n++
			key := fmt.Sprintf("tree.RandomUniformBinaryTree/%s→%s", o.Name(), list.Name())
			if appended[o] {
				c.OK(rule, key, as.Pos(), "the new branch becomes a candidate for later insertions")
			} else {
				c.Violation(rule, key, as.Pos(), fmt.Sprintf("the branch `%s` created here is never appended to `%s`, the list the insertion point is drawn from: no later tip can be inserted on it, so the labelled topologies that need it are never generated", o.Name(), list.Name())).Clause = clause
			}
		}
		return true
	})
	if n == 0 {
		c.Undecided(rule, "tree.RandomUniformBinaryTree/candidates", fi.Decl.Pos(), "no branch creation found")
	}
}

// isAdjPrimitive: the adjacency primitives of package tree (their own stores are checked elsewhere).
func (c *Ctx) isAdjPrimitive(g *types.Func) bool {
	switch g.Name() {
	case "addChild", "delNeighbor", "ConnectNodes", "NewNode", "NewEdge", "setLeft", "setRight", "Inverse", "unconnectNode", "delNode":
		return true
	}
	return false
}

// ---------------------------------------------------------------------------------------------
// WRITEBACK-ALL: a function that permutes the two parallel neighbour slices of a node through a
// scratch slice (sortNeighbors) writes every slot back: the loop holding the stores
// `cur.neigh[i] = ...` / `cur.br[i] = ...` starts at the first slot and runs to the end of what it
// ranges over. A write-back that skips a slot leaves the old neighbour there while the sorted order
// may have put another one at that position: one neighbour is duplicated and one is lost.
func (c *Ctx) writebackAll(rule string, fi *FuncInfo, clause string) {
	info := fi.Pkg.TypesInfo
	key := fi.Name() + "/write-back-every-slot"
	n, bad := 0, false
	walkStack(fi.Decl.Body, func(m ast.Node, stack []ast.Node) bool {
		as, ok := m.(*ast.AssignStmt)
		if !ok || len(as.Lhs) != 1 {
			return true
		}
		ix, ok := unparen(as.Lhs[0]).(*ast.IndexExpr)
		if !ok {
			return true
		}
		sel, ok := unparen(ix.X).(*ast.SelectorExpr)
		if !ok || (sel.Sel.Name != "neigh" && sel.Sel.Name != "br") {
			return true
		}
		var loop ast.Node
		for i := len(stack) - 1; i >= 0 && loop == nil; i-- {
			switch stack[i].(type) {
			case *ast.RangeStmt, *ast.ForStmt:
				loop = stack[i]
			}
		}
		if loop == nil {
			return true
		}
		n++
		fs, isFor := loop.(*ast.ForStmt)
		if !isFor {
			return true
		}
		why := ""
		if !isIndexLoop(info, fs) {
			why = "stops on a condition other than the end of the slice (" + c.src(fs.Cond) + ")"
		} else if init := fs.Init.(*ast.AssignStmt); len(init.Rhs) == 1 {
			tv, okc := info.Types[init.Rhs[0]]
			be, _ := unparen(fs.Cond).(*ast.BinaryExpr)
			descending := be != nil && ((be.Op == token.GEQ || be.Op == token.GTR) && identObj(info, be.X) == identObj(info, init.Lhs[0]))
			if !descending && !(okc && tv.Value != nil && tv.Value.String() == "0") {
				why = "starts at " + c.src(init.Rhs[0]) + " instead of the first slot"
			}
		}
		if why != "" && !bad {
			bad = true
			c.Violation(rule, key, fs.Pos(), "the loop writing the permuted neighbours back "+why+": a slot that is not written keeps its old neighbour, which the new order may have placed elsewhere").Clause = clause
		}
		return true
	})
	if n == 0 {
		c.Undecided(rule, key, fi.Decl.Pos(), "no loop writing the neighbour slices back was found")
		return
	}
	if !bad {
		c.OK(rule, key, fi.Decl.Pos(), fmt.Sprintf("%d write-back stores, each in a loop over every slot", n)).Clause = clause
	}
}

// ---------------------------------------------------------------------------------------------
// ROOT-LIVE: a function of package tree that installs one of its *Node parameters as the root
// (store into the root field, or SetRoot) does not first call anything that can delete nodes of
// the tree (reaches delNode): the caller's node may be the one deleted (UnRoot deletes the degree-2
// root), and the tree then hangs from a node without neighbours.
func (c *Ctx) rootLive(rule string, funcs []*FuncInfo, clause string) int {
	n := 0
	isDel := func(f *types.Func) bool { return isRepoFunc(f, "tree", "Tree", "delNode") }
	for _, fi := range funcs {
		if fi.Decl.Body == nil {
			continue
		}
		info := fi.Pkg.TypesInfo
		params := map[types.Object]bool{}
		for i := 0; i < fi.Obj.Type().(*types.Signature).Params().Len(); i++ {
			if p := paramObj(info, fi.Decl, i); p != nil && isNodePtr(p.Type()) {
				params[p] = true
			}
		}
		if len(params) == 0 {
			continue
		}
		var store ast.Node
		var stored types.Object
		ast.Inspect(fi.Decl.Body, func(m ast.Node) bool {
			switch x := m.(type) {
			case *ast.FuncLit:
				return false
			case *ast.AssignStmt:
				for i, l := range x.Lhs {
					if sel, ok := unparen(l).(*ast.SelectorExpr); ok && sel.Sel.Name == "root" && i < len(x.Rhs) {
						if o := identObj(info, x.Rhs[i]); o != nil && params[o] && store == nil {
							store, stored = x, o
						}
					}
				}
			case *ast.CallExpr:
				if isRepoFunc(calleeOf(info, x), "tree", "Tree", "SetRoot") && len(x.Args) == 1 {
					if o := identObj(info, x.Args[0]); o != nil && params[o] && store == nil {
						store, stored = x, o
					}
				}
			}
			return true
		})
		if store == nil {
			continue
		}
		n++
		key := fi.Name() + "/new-root-still-in-tree"
		var bad *ast.CallExpr
		for _, call := range callsIn(fi.Decl.Body, false) {
			if call.Pos() >= store.Pos() {
				continue
			}
			g := calleeOf(info, call)
			if g == nil || g == fi.Obj || !inRepo(g) {
				continue
			}
			if c.reaches(g, isDel, 4, map[*types.Func]bool{}) {
				bad = call
				break
			}
		}
		if bad != nil {
			c.Violation(rule, key, bad.Pos(), "`"+c.src(bad)+"` can delete nodes of the tree and runs before the caller's node `"+stored.Name()+"` is installed as the root: when that node is the one deleted (the degree-2 root of a rooted tree) the tree hangs from a node without neighbours").Clause = clause
		} else {
			c.OK(rule, key, store.Pos(), "no node-deleting call before the caller's node becomes the root").Clause = clause
		}
	}
	return n
}

func isNodePtr(t types.Type) bool {
	p, ok := t.(*types.Pointer)
	if !ok {
		return false
	}
	nm, ok := p.Elem().(*types.Named)
	return ok && nm.Obj().Name() == "Node" && nm.Obj().Pkg() != nil && strings.HasSuffix(nm.Obj().Pkg().Path(), "/tree")
}

// ---------------------------------------------------------------------------------------------
// NAME-EXACT: tip and taxon names are compared byte for byte. In the tree library and the format
// readers/writers a case-folding function (strings.ToLower/ToUpper/Title/ToTitle/EqualFold) is used
// only to recognise keywords: its result is the tag of a switch whose cases are constants, or one
// side of ==/!= against a constant, or (EqualFold) compared with a constant. A folded text used as a
// map key, stored or returned makes two names that differ only by case the same taxon.
func (c *Ctx) nameExact(rule string, funcs []*FuncInfo, clause string) (scanned, violations int) {
	for _, fi := range funcs {
		info := fi.Pkg.TypesInfo
		isConst := func(e ast.Expr) bool {
			tv, ok := info.Types[e]
			return ok && tv.Value != nil
		}
		walkStack(fi.Decl.Body, func(m ast.Node, stack []ast.Node) bool {
			call, ok := m.(*ast.CallExpr)
			if !ok {
				return true
			}
			fn := calleeOf(info, call)
			if fn == nil || fn.Pkg() == nil || (fn.Pkg().Path() != "strings" && fn.Pkg().Path() != "bytes") {
				return true
			}
			switch fn.Name() {
			case "ToLower", "ToUpper", "Title", "ToTitle", "EqualFold":
			default:
				return true
			}
			scanned++
			key := funcName(fi.Obj) + "/" + fn.Name() + "(" + c.src(call.Args[0]) + ")"
			ok2 := false
			if fn.Name() == "EqualFold" {
				ok2 = len(call.Args) == 2 && (isConst(call.Args[0]) || isConst(call.Args[1]))
			} else {
				i := len(stack) - 1
				for i >= 0 {
					if _, isP := stack[i].(*ast.ParenExpr); !isP {
						break
					}
					i--
				}
				if i >= 0 {
					switch p := stack[i].(type) {
					case *ast.SwitchStmt:
						if p.Tag != nil && unparen(p.Tag) == ast.Expr(call) {
							ok2 = true
							for _, cc := range p.Body.List {
								for _, e := range cc.(*ast.CaseClause).List {
									if !isConst(e) {
										ok2 = false
									}
								}
							}
						}
					case *ast.BinaryExpr:
						if p.Op == token.EQL || p.Op == token.NEQ {
							other := p.X
							if unparen(p.X) == ast.Expr(call) {
								other = p.Y
							}
							ok2 = isConst(other)
						}
					case *ast.IndexExpr:
						// look-up in a package-level keyword table whose keys are constants
						if unparen(p.Index) == ast.Expr(call) {
							if tv, isVar := info.Uses[rootIdent(p.X)].(*types.Var); isVar && tv.Parent() == fi.Pkg.Types.Scope() {
								ok2 = constKeyedTable(fi.Pkg, tv)
							}
						}
					}
				}
			}
			if ok2 {
				c.OK(rule, key, call.Pos(), "case folding only to recognise a constant keyword").Clause = clause
			} else {
				violations++
				c.Violation(rule, key, call.Pos(), "`"+c.src(call)+"` folds the case of a text that is not merely compared with a constant keyword: names that differ only by case become the same taxon (or a name no longer matches itself)").Clause = clause
			}
			return true
		})
	}
	return
}

// ---------------------------------------------------------------------------------------------
// SIDES: a comparison whose results are reported per side ("only in the reference", "only in the
// compared tree") never assigns to the parameter carrying one side a value built from the parameter
// carrying the other side (a swap "because the count of common splits is symmetric" exchanges the
// per-side results too).
func (c *Ctx) sidesKept(rule string, fi *FuncInfo, clause string) {
	info := fi.Pkg.TypesInfo
	sig := fi.Obj.Type().(*types.Signature)
	var params []types.Object
	for i := 0; i < sig.Params().Len(); i++ {
		if p := paramObj(info, fi.Decl, i); p != nil {
			params = append(params, p)
		}
	}
	key := fi.Name() + "/sides-not-exchanged"
	var bad *ast.AssignStmt
	pairs := 0
	for i, a := range params {
		for j, b := range params {
			if i < j && types.Identical(a.Type(), b.Type()) {
				pairs++
			}
		}
	}
	if pairs == 0 {
		return
	}
	ast.Inspect(fi.Decl.Body, func(m ast.Node) bool {
		as, ok := m.(*ast.AssignStmt)
		if !ok || bad != nil {
			return true
		}
		for i, l := range as.Lhs {
			lo := identObj(info, l)
			if lo == nil {
				continue
			}
			isParam := false
			for _, p := range params {
				if p == lo {
					isParam = true
				}
			}
			if !isParam {
				continue
			}
			rhs := as.Rhs
			if len(as.Rhs) == len(as.Lhs) {
				rhs = as.Rhs[i : i+1]
			}
			for _, r := range rhs {
				ast.Inspect(r, func(q ast.Node) bool {
					if id, ok := q.(*ast.Ident); ok {
						if o := info.Uses[id]; o != nil && o != lo && types.Identical(o.Type(), lo.Type()) {
							for _, p := range params {
								if p == o {
									bad = as
								}
							}
						}
					}
					return true
				})
			}
		}
		return true
	})
	if bad != nil {
		c.Violation(rule, key, bad.Pos(), "`"+c.src(bad)+"` gives the parameter of one side a value taken from the other side: the results reported per side (only in the first / only in the second) are exchanged or mixed").Clause = clause
		return
	}
	c.OK(rule, key, fi.Decl.Pos(), "the parameters of the two sides are never assigned from one another").Clause = clause
}

func rootIdent(e ast.Expr) *ast.Ident {
	id, _ := unparen(e).(*ast.Ident)
	return id
}

// constKeyedTable: package-level variable v is initialised by a map literal all of whose keys are
// constants, and nothing in the package stores into it.
func constKeyedTable(p *packages.Package, v *types.Var) bool {
	info := p.TypesInfo
	good, found := true, false
	for _, f := range p.Syntax {
		ast.Inspect(f, func(n ast.Node) bool {
			switch x := n.(type) {
			case *ast.ValueSpec:
				for i, nm := range x.Names {
					if info.Defs[nm] == v {
						found = true
						if i >= len(x.Values) {
							good = false
							continue
						}
						cl, ok := unparen(x.Values[i]).(*ast.CompositeLit)
						if !ok {
							good = false
							continue
						}
						for _, el := range cl.Elts {
							kv, ok := el.(*ast.KeyValueExpr)
							if !ok {
								good = false
								continue
							}
							if tv, ok := info.Types[kv.Key]; !ok || tv.Value == nil {
								good = false
							}
						}
					}
				}
			case *ast.AssignStmt:
				for _, l := range x.Lhs {
					if ix, ok := unparen(l).(*ast.IndexExpr); ok && info.Uses[rootIdent(ix.X)] == v {
						good = false
					}
					if id := rootIdent(l); id != nil && info.Uses[id] == v {
						good = false
					}
				}
			}
			return true
		})
	}
	return good && found
}
