package main

import (
	"fmt"
	"go/ast"
	"go/constant"
	"go/token"
	"go/types"
	"regexp"
	"strconv"
	"strings"
)

func init() { props["C16"] = checkC16 }

type genSpec struct {
	name     string
	size     int // parameter index of the size
	rooted   int // parameter index of rooted, -1 if none
	spec     func(n, r string) *bexpr
	unroot   string // call made iff !rooted
	lengths  bool   // created branches must get a non-negative length
	reindex  bool
	helperOf string
}

var msgConst = regexp.MustCompile(`(?:less than|<)\s*(\d+)`)

func checkC16(c *Ctx) {
	c.Decides("GF: each generator returns its size error exactly under the documented minimum (uniform/Yule/caterpillar: n<2, or n<3 when rooted; balanced: depth<1, or depth<2 when unrooted (2 tips cannot be unrooted); star: n<2; enumerator: n<3 unrooted, n<2 rooted), the constant in the guard is the one in its message, and no node/branch is created, grafted or re-rooted on a path where the guard would have fired")
	c.Decides("NAMED: the generators name the tips they create: the number of nodes created by NewNode and given a name, per generator, is not lower than on the reference tree (reference count)")
	c.namedCreations("NAMED", c.funcsInFiles("tree/treegen.go"), "exactly the requested number of uniquely named tips")
	c.Floor("NAMED", 6)
	c.Decides("TWIN-ARMS: in the generators a choice `if names are given { X.SetName(given) } else { Y.SetName(default) }` names the same node on both arms")
	c.twinArms("TWIN-ARMS", c.funcsInFiles("tree/treegen.go"), "SetName", "labelled topologies exactly once")
	c.Decides("PATH: every successful return passes ReinitIndexes (indexes ready for use); RerootFirst/UnRoot is called exactly when an unrooted tree is requested")
	c.Decides("LENGTH: in the random generators and the star every branch created (ConnectNodes result, both GraftTipOnEdge results and the grafted branch) receives a length that is an exponential draw or a non-negative constant - a branch left at the 'absent' sentinel is a negative length")
	c.Decides("SHAPE: star branches all hang from the root; the balanced recursion creates two children per node and recurses on both under the same depth test; the caterpillar always grafts on the branch of the previously added tip")
	c.DoesNotDecide("tip count, uniqueness of names, binary shape of the random generators, the (2n-5)!!/(2n-3)!! enumeration (numerical/combinatorial facts); the insertion draw is decided under C20")
	nlt := func(n string, k int64) *bexpr { return intCmp(n, token.LSS, k) }
	specs := []genSpec{
		{name: "RandomUniformBinaryTree", size: 0, rooted: 1, spec: func(n, r string) *bexpr { return bOr(nlt(n, 2), bAnd(nlt(n, 3), bAtom(r))) }, unroot: "RerootFirst", lengths: true, reindex: true},
		{name: "RandomYuleBinaryTree", size: 0, rooted: 1, spec: func(n, r string) *bexpr { return bOr(nlt(n, 2), bAnd(nlt(n, 3), bAtom(r))) }, unroot: "RerootFirst", lengths: true, reindex: true},
		{name: "RandomCaterpillarBinaryTree", size: 0, rooted: 1, spec: func(n, r string) *bexpr { return bOr(nlt(n, 2), bAnd(nlt(n, 3), bAtom(r))) }, unroot: "RerootFirst", lengths: true, reindex: true},
		// an unrooted binary tree has at least 3 tips: UnRoot of the 2-tip tree of depth 1 leaves a tip as root (malformed text)
		{name: "RandomBalancedBinaryTree", size: 0, rooted: 1, spec: func(n, r string) *bexpr { return bOr(nlt(n, 1), bAnd(nlt(n, 2), bNot(bAtom(r)))) }, unroot: "UnRoot", lengths: false, reindex: true},
		{name: "StarTree", size: 0, rooted: -1, spec: func(n, r string) *bexpr { return nlt(n, 2) }, lengths: true, reindex: true},
		{name: "AllTopologies", size: 0, rooted: 1, spec: func(n, r string) *bexpr { return bOr(bAnd(nlt(n, 3), bNot(bAtom(r))), bAnd(nlt(n, 2), bAtom(r))) }},
	}
	for _, gs := range specs {
		c.generator(gs)
	}
	c.lengthsOf("randomBalancedBinaryTreeRecur")
	c.balancedSkeleton()
	c.caterpillarSkeleton()
	c.starSkeleton()
	c.generatorCommands("GENCMD")
	c.orientRule("ORIENT")
	c.Decides("GF: RerootFirst, which the insertion generators call for an unrooted request, ends with a non-nil error when no node with three neighbours exists (the two-tip case): that error is what rejects the size the guard lets through")
	if fi := c.Func("tree", "Tree", "RerootFirst"); fi != nil {
		info := fi.Pkg.TypesInfo
		// every value RerootFirst returns is the result of Reroot or a constructed error: there is no
		// way out with nil that has not re-rooted the tree
		fromOK := func(e ast.Expr) bool {
			cl, ok := unparen(e).(*ast.CallExpr)
			if !ok {
				return false
			}
			fn := calleeOf(info, cl)
			if fn == nil || fn.Pkg() == nil {
				return false
			}
			return isRepoFunc(fn, "tree", "Tree", "Reroot") || (fn.Pkg().Path() == "errors" && fn.Name() == "New") || (fn.Pkg().Path() == "fmt" && fn.Name() == "Errorf")
		}
		var named types.Object
		if rl := fi.Decl.Type.Results; rl != nil && len(rl.List) == 1 && len(rl.List[0].Names) == 1 {
			named = info.Defs[rl.List[0].Names[0]]
		}
		varOK := func(o types.Object) bool {
			n, good := 0, true
			ast.Inspect(fi.Decl.Body, func(m ast.Node) bool {
				if as, ok := m.(*ast.AssignStmt); ok {
					for i, l := range as.Lhs {
						if identObj(info, l) == o {
							n++
							if len(as.Lhs) != len(as.Rhs) || !fromOK(as.Rhs[i]) {
								good = false
							}
						}
					}
				}
				return true
			})
			return good && n > 0
		}
		good, nret := true, 0
		var at token.Pos = fi.Decl.Pos()
		ast.Inspect(fi.Decl.Body, func(m ast.Node) bool {
			if _, ok := m.(*ast.FuncLit); ok {
				return false
			}
			r, ok := m.(*ast.ReturnStmt)
			if !ok {
				return true
			}
			nret++
			okRet := false
			switch {
			case len(r.Results) == 0:
				okRet = named != nil && varOK(named)
			case len(r.Results) == 1 && fromOK(r.Results[0]):
				okRet = true
			case len(r.Results) == 1 && !isNilIdent(info, r.Results[0]) && identObj(info, r.Results[0]) != nil:
				okRet = varOK(identObj(info, r.Results[0]))
			}
			if !okRet {
				good, at = false, r.Pos()
			}
			return true
		})
		c.Check(good && nret > 0, "GF", "tree.Tree.RerootFirst/not-found-is-an-error", at, "every return hands back the result of Reroot or a constructed error", "RerootFirst has a way out that returns neither the result of Reroot nor a constructed error (a plain nil when its search finds no node with three neighbours): an unrooted two-tip request is no longer refused and the generator returns a tree rooted on a tip").Clause = "Sizes below the documented minimum are rejected with an error rather than a crash"
	}
	c.Decides("BUF-FLUSH: every bufio.Writer of the repository (none in the generate commands today) is flushed, and not by a deferred Flush that would run after an ordinary close of its file")
	c.bufFlush("BUF-FLUSH", c.All, "returns each of the ... topologies exactly once")
	c.Floor("BUF-FLUSH", 3)
	c.Decides("ERR-DEAD: in the generators (tree/treegen.go) and the generate commands, the error a call stores in a variable is read before that variable is assigned again on every path (go/cfg): the size error of a generator cannot be overwritten by a later call before it is tested")
	c.Decides("ERR-SWALLOW: in the same files, a branch entered because an error value is non-nil does not leave the function with a nil error (no `return nil`, no bare return with an unset named result)")
	c.errDeadIn("Sizes below the documented minimum are rejected with an error rather than a crash", 10, "tree/treegen.go", "cmd/uniformtree.go", "cmd/yuletree.go", "cmd/balancedtree.go", "cmd/caterpillartree.go", "cmd/startree.go", "cmd/topologies.go", "cmd/generate.go")
	if fx := c.Fixture(); fx != nil {
		sub := c.subCtx(fx)
		var fs []*FuncInfo
		for _, fi := range sub.AllFuncs() {
			if fi.Obj.Name() == "C16ErrDead" {
				fs = append(fs, fi)
			}
		}
		_, nv := sub.errDead("ERR-DEAD", fs, func(info *types.Info, call *ast.CallExpr) bool { return true }, "")
		c.Control("ERR-DEAD", nv == 1, "fixture.C16ErrDead overwrites the error of Open with the one of WriteString before the loop condition reads it")
	}
	c.Decides("SHADOW-RESULT: no function of the repository with a named error result (the RunE closures of the generate commands included) hides that result behind an inner `err :=` whose failure branch neither returns nor stops: the rejection of a bad size would be logged and reported as success")
	nsr, _ := c.shadowResult("SHADOW-RESULT", c.All, "sizes below the documented minimum are rejected with an error")
	if nsr < 100 {
		c.Undecided("SHADOW-RESULT", "scan-count", 0, fmt.Sprintf("only %d functions with a named error result seen (139 confirmed by hand)", nsr))
	}
	c.Floor("GF", 10)
	c.Floor("PATH", 5)
	c.Floor("LENGTH", 12)
	c.Floor("SHAPE", 4)
	c.Decides("FRESH-FRONTIER: in the level-by-level walks of package tree (depths of an unrooted tree) the slice handed over as the next level is a new slice in every round, never one truncated buffer shared with the level being read")
	if c.freshFrontier("FRESH-FRONTIER", c.AllFuncs("tree"), "indexes ready for use") == 0 {
		// no loop hands an appended slice over to the one it reads: nothing can alias (the walk may
		// obtain each level from a function that returns a new slice)
		c.OK("FRESH-FRONTIER", "scan", token.NoPos, "no loop of package tree hands a slice it appends to over to a slice it reads").Clause = "indexes ready for use"
	}
}

var buildCalls = map[string]bool{"NewNode": true, "ConnectNodes": true, "GraftTipOnEdge": true, "RerootFirst": true, "UnRoot": true, "SetRoot": true}

func (c *Ctx) generator(gs genSpec) {
	fi := c.Func("tree", "", gs.name)
	if fi == nil {
		return
	}
	info := fi.Pkg.TypesInfo
	name := "tree." + gs.name
	clause := "Sizes below the documented minimum are rejected with an error rather than a crash"
	nObj := paramObj(info, fi.Decl, gs.size)
	var rObj types.Object
	if gs.rooted >= 0 {
		rObj = paramObj(info, fi.Decl, gs.rooted)
	}
	if nObj == nil {
		c.Undecided("GF", name+"/size-guard", fi.Decl.Pos(), "size parameter not found")
		return
	}
	o := &canonOpts{subst: map[types.Object]string{nObj: "$N"}}
	if rObj != nil {
		o.subst[rObj] = "$R"
	}
	onlySizeTerms := func(e ast.Expr) bool {
		ok := true
		ast.Inspect(e, func(n ast.Node) bool {
			if id, isId := n.(*ast.Ident); isId {
				if ob := info.Uses[id]; ob != nil {
					if _, isVar := ob.(*types.Var); isVar && ob != nObj && ob != rObj {
						ok = false
					}
				}
			}
			if _, isCall := n.(*ast.CallExpr); isCall {
				ok = false
			}
			return ok
		})
		return ok
	}
	sizeConds := func(conds []cond) []cond {
		var out []cond
		for _, cd := range conds {
			if cd.Expr != nil && onlySizeTerms(cd.Expr) {
				out = append(out, cd)
			}
		}
		return out
	}
	// `if err := check(n, rooted); err != nil { return nil, err }`: a validation helper that only returns
	// an error; the condition under which it does (its error returns, parameters replaced by the
	// arguments) is the guard
	validator := map[types.Object]*bexpr{}
	ast.Inspect(fi.Decl.Body, func(m ast.Node) bool {
		as, ok := m.(*ast.AssignStmt)
		if !ok || len(as.Lhs) != 1 || len(as.Rhs) != 1 {
			return true
		}
		call, ok := unparen(as.Rhs[0]).(*ast.CallExpr)
		if !ok {
			return true
		}
		ev := identObj(info, as.Lhs[0])
		if ev == nil || !isErrorType(ev.Type()) {
			return true
		}
		if b := c.errCondOfCall(info, call, o); b != nil {
			validator[ev] = b
		}
		return true
	})
	guardBexpr := func(conds []cond) *bexpr {
		parts := []*bexpr{c.condsToBexpr(info, sizeConds(conds), o)}
		for _, cd := range flattenConds(conds) {
			if cd.Expr == nil {
				continue
			}
			if to, nonNil, ok := nilTest(info, cd.Expr); ok {
				if b, isV := validator[to]; isV {
					// cond says err != nil (nonNil) possibly negated
					if nonNil != cd.Neg {
						parts = append(parts, b)
					} else {
						parts = append(parts, bNot(b))
					}
				}
			}
		}
		return bAnd(parts...)
	}
	// error returns guarded by a test on the size only
	var alts []*bexpr
	nret := 0
	ast.Inspect(fi.Decl.Body, func(m ast.Node) bool {
		if _, isLit := m.(*ast.FuncLit); isLit {
			return false
		}
		ret, ok := m.(*ast.ReturnStmt)
		if !ok || returnsNilError(info, ret) || len(ret.Results) < 2 || !isNilIdent(info, ret.Results[0]) {
			return true
		}
		st := stackTo(fi.Decl.Body, ret)
		var encl *ast.IfStmt
		for _, s := range st {
			if is, ok := s.(*ast.IfStmt); ok {
				encl = is
			}
		}
		viaValidator := false
		if encl != nil {
			if to, nonNil, ok := nilTest(info, encl.Cond); ok && nonNil && validator[to] != nil {
				viaValidator = true
			}
		}
		if viaValidator {
			if conds, okc := c.pathConds(info, fi.Decl.Body, ret, false); okc {
				nret++
				alts = append(alts, guardBexpr(conds))
			}
			return true
		}
		if encl == nil || !onlySizeTerms(encl.Cond) {
			return true
		}
		conds, okc := c.pathConds(info, fi.Decl.Body, ret, false)
		if !okc {
			c.Undecided("GF", name+"/size-guard", ret.Pos(), "guard shape not understood")
			return true
		}
		nret++
		alts = append(alts, c.condsToBexpr(info, sizeConds(conds), o))
		// message constant == guard constant
		var k int64 = -1
		ast.Inspect(encl.Cond, func(n ast.Node) bool {
			if e, ok := n.(ast.Expr); ok {
				if v, ok := intConstOf(info, e); ok {
					k = v
				}
			}
			return true
		})
		msg := ""
		ast.Inspect(ret, func(n ast.Node) bool {
			if bl, ok := n.(*ast.BasicLit); ok && bl.Kind == token.STRING {
				if tv := info.Types[bl]; tv.Value != nil {
					msg = constant.StringVal(tv.Value)
				}
			}
			return true
		})
		if m := msgConst.FindStringSubmatch(msg); m != nil {
			mk, _ := strconv.ParseInt(m[1], 10, 64)
			c.Check(mk == k, "GF", fmt.Sprintf("%s/message-constant#%d", name, nret), ret.Pos(), fmt.Sprintf("message and guard agree on %d", k),
				fmt.Sprintf("the error message documents a minimum of %d but the guard tests %d", mk, k)).Clause = clause
		}
		return true
	})
	spec := gs.spec("$N", "$R")
	if len(alts) == 0 {
		c.Violation("GF", name+"/size-guard", fi.Decl.Pos(), "no error return guarded by the size: sizes below the minimum are not rejected").Clause = clause
		return
	}
	code := bOr(alts...)
	eq, wit, _, err := gfEquiv(code, spec)
	if err != nil {
		c.Undecided("GF", name+"/size-guard", fi.Decl.Pos(), err.Error())
	} else {
		c.Check(eq, "GF", name+"/size-guard", fi.Decl.Pos(), "size error iff "+spec.String(), "size error returned under "+code.String()+", documented minimum requires "+spec.String()+": "+wit).Clause = clause
	}
	// no construction on a path where the guard would fire
	nb := 0
	for _, call := range callsIn(fi.Decl.Body, false) {
		fn := calleeOf(info, call)
		if fn == nil || !inRepo(fn) || !buildCalls[fn.Name()] {
			continue
		}
		conds, okc := c.pathConds(info, fi.Decl.Body, call, false)
		if !okc {
			c.Undecided("GF", fmt.Sprintf("%s/guard-dominates/%s", name, fn.Name()), call.Pos(), "guard shape not understood")
			continue
		}
		nb++
		pc := guardBexpr(conds)
		imp, wit, _, err := gfImplies(pc, bNot(spec))
		if err != nil {
			c.Undecided("GF", fmt.Sprintf("%s/guard-dominates/%s#%d", name, fn.Name(), nb), call.Pos(), err.Error())
			continue
		}
		if !imp {
			c.Violation("GF", fmt.Sprintf("%s/guard-dominates/%s#%d", name, fn.Name(), nb), call.Pos(), fn.Name()+" can run for a size the generator must reject ("+wit+"): the size guard does not come first").Clause = clause
		}
	}
	if nb > 0 {
		c.OK("GF", name+"/guard-dominates", fi.Decl.Pos(), fmt.Sprintf("%d construction calls all come after the size guard", nb))
	}
	// un-rooting iff !rooted
	if gs.unroot != "" && rObj != nil {
		found := false
		for _, call := range callsIn(fi.Decl.Body, false) {
			fn := calleeOf(info, call)
			if fn == nil || !isRepoFunc(fn, "tree", "Tree", gs.unroot) {
				continue
			}
			found = true
			conds, okc := c.pathConds(info, fi.Decl.Body, call, false)
			var rel []cond
			for _, cd := range conds {
				if cd.Expr != nil && mentions(info, cd.Expr, rObj) && !mentions(info, cd.Expr, nObj) {
					rel = append(rel, cd)
				}
			}
			pc := c.condsToBexpr(info, rel, o)
			eq, wit, _, err := gfEquiv(pc, bNot(bAtom("$R")))
			if !okc || err != nil {
				c.Undecided("GF", name+"/"+gs.unroot+"-iff-unrooted", call.Pos(), "guard shape not understood")
			} else {
				c.Check(eq, "GF", name+"/"+gs.unroot+"-iff-unrooted", call.Pos(), gs.unroot+" iff !rooted", gs.unroot+" is called under "+pc.String()+", must be exactly when an unrooted tree is requested: "+wit).Clause = "the requested rootedness"
			}
		}
		if !found {
			// a finishing helper given the rootedness flag does it
			for _, call := range callsIn(fi.Decl.Body, false) {
				g := calleeOf(info, call)
				if g == nil || g.Exported() || g.Pkg() != fi.Obj.Pkg() {
					continue
				}
				gi := c.FuncOfObj(g)
				if gi == nil || gi.Decl.Body == nil {
					continue
				}
				ri := -1
				for i, a := range call.Args {
					if identObj(info, a) == rObj {
						ri = i
					}
				}
				if ri < 0 {
					continue
				}
				ginfo := gi.Pkg.TypesInfo
				rp := paramObj(ginfo, gi.Decl, ri)
				o2 := &canonOpts{subst: map[types.Object]string{rp: "$R"}}
				for _, c2 := range callsIn(gi.Decl.Body, false) {
					if !isRepoFunc(calleeOf(ginfo, c2), "tree", "Tree", gs.unroot) {
						continue
					}
					found = true
					conds, okc := c.pathConds(ginfo, gi.Decl.Body, c2, false)
					var rel []cond
					for _, cd := range conds {
						if cd.Expr != nil && mentions(ginfo, cd.Expr, rp) {
							rel = append(rel, cd)
						}
					}
					pc := c.condsToBexpr(ginfo, rel, o2)
					eq, wit, _, err := gfEquiv(pc, bNot(bAtom("$R")))
					if !okc || err != nil {
						c.Undecided("GF", name+"/"+gs.unroot+"-iff-unrooted", call.Pos(), "guard shape not understood")
					} else {
						c.Check(eq, "GF", name+"/"+gs.unroot+"-iff-unrooted", call.Pos(), gs.unroot+" iff !rooted (in "+g.Name()+")", gs.unroot+" is called under "+pc.String()+", must be exactly when an unrooted tree is requested: "+wit).Clause = "the requested rootedness"
					}
				}
			}
		}
		if !found {
			c.Violation("GF", name+"/"+gs.unroot+"-iff-unrooted", fi.Decl.Pos(), "an unrooted tree is never produced: no call of "+gs.unroot).Clause = "the requested rootedness"
		}
	}
	// ReinitIndexes on every success return
	if gs.reindex {
		fg := c.cfgOf(info, fi.Decl.Body)
		passes := func(n ast.Node) bool {
			return containsCall(info, n, func(cl *ast.CallExpr, fn *types.Func) bool {
				if isRepoFunc(fn, "tree", "Tree", "ReinitIndexes") {
					return true
				}
				// an unexported finishing helper of the package that always ends with it
				return fn != nil && !fn.Exported() && fn.Pkg() == fi.Obj.Pkg() && c.reaches(fn, func(h *types.Func) bool { return isRepoFunc(h, "tree", "Tree", "ReinitIndexes") }, 2, map[*types.Func]bool{})
			})
		}
		res := mustPassFromEntryEx(fg, passes, func(ret *ast.ReturnStmt) bool {
			if ret == nil || len(ret.Results) == 0 {
				return true
			}
			if passes(ret) {
				return false // `return finish(t, rooted)`: the call sits in the return itself
			}
			return !isNilIdent(info, ret.Results[0]) // a return that hands out a tree
		})
		if res.ok {
			c.OK("PATH", name+"/ReinitIndexes", fi.Decl.Pos(), "every return that hands out a tree passes ReinitIndexes")
		} else {
			_, ln := c.pos(res.escape)
			c.Violation("PATH", name+"/ReinitIndexes", fi.Decl.Pos(), fmt.Sprintf("the return at line %d hands out a tree without a call of ReinitIndexes on the way: tip index, bitsets and hashes are not ready for use", ln)).Clause = "indexes ready for use"
		}
	}
	if gs.lengths {
		c.lengthsOf(gs.name)
	}
	c.useBefore(fi)
}

// mustPassFromEntryEx: like mustPassFromEntry with a filter on which exits matter.
func mustPassFromEntryEx(fg *fcfg, pass func(n ast.Node) bool, exitMatters func(ret *ast.ReturnStmt) bool) pathResult {
	res := pathResult{ok: true}
	if len(fg.g.Blocks) == 0 {
		res.ok = false
		return res
	}
	// a block may be reached both having passed and not: track "not passed" reachability only
	seen := map[int32]bool{}
	var walk func(b int32) bool
	walk = func(bi int32) bool {
		if seen[bi] {
			return true
		}
		seen[bi] = true
		b := fg.g.Blocks[bi]
		for _, n := range b.Nodes {
			// a return statement may itself contain the call (return t, t.X())
			if ret, ok := n.(*ast.ReturnStmt); ok {
				if exitMatters(ret) {
					res.escape = ret.Pos()
					return false
				}
				return true
			}
			if pass(n) {
				return true
			}
		}
		if len(b.Succs) == 0 {
			if len(b.Nodes) > 0 {
				if es, ok := b.Nodes[len(b.Nodes)-1].(*ast.ExprStmt); ok {
					if cl, ok := es.X.(*ast.CallExpr); ok && fg.noRet(cl) {
						return true
					}
				}
				res.escape = b.Nodes[len(b.Nodes)-1].End()
			}
			return !exitMatters(nil)
		}
		for _, s := range b.Succs {
			if !walk(s.Index) {
				return false
			}
		}
		return true
	}
	res.ok = walk(0)
	return res
}

// lengthsOf: every branch created in the function gets an exponential draw or a non-negative constant.
func (c *Ctx) lengthsOf(fnName string) {
	fi := c.Func("tree", "", fnName)
	if fi == nil {
		return
	}
	info := fi.Pkg.TypesInfo
	name := "tree." + fnName
	clause := "non-negative branch lengths"
	type created struct {
		obj  types.Object
		pos  token.Pos
		blk  []ast.Stmt
		what string
	}
	var cs []created
	walkStack(fi.Decl.Body, func(n ast.Node, stack []ast.Node) bool {
		as, ok := n.(*ast.AssignStmt)
		if !ok || len(as.Rhs) != 1 {
			return true
		}
		call, ok := unparen(as.Rhs[0]).(*ast.CallExpr)
		if !ok {
			return true
		}
		fn := calleeOf(info, call)
		var blk []ast.Stmt
		for i := len(stack) - 1; i >= 0; i-- {
			switch b := stack[i].(type) {
			case *ast.BlockStmt:
				blk = b.List
			case *ast.CaseClause:
				blk = b.Body
			}
			if blk != nil {
				break
			}
		}
		switch {
		case isRepoFunc(fn, "tree", "Tree", "ConnectNodes") && len(as.Lhs) == 1:
			if o := identObj(info, as.Lhs[0]); o != nil {
				cs = append(cs, created{o, as.Pos(), blk, "branch created by ConnectNodes"})
			}
		case isRepoFunc(fn, "tree", "Tree", "GraftTipOnEdge") && len(as.Lhs) == 4:
			for i := 0; i < 2; i++ {
				if o := identObj(info, as.Lhs[i]); o != nil {
					cs = append(cs, created{o, as.Pos(), blk, "branch created by GraftTipOnEdge"})
				}
			}
			if len(call.Args) == 2 {
				if o := identObj(info, call.Args[1]); o != nil {
					cs = append(cs, created{o, as.Pos(), blk, "branch split by GraftTipOnEdge"})
				}
			}
		}
		return true
	})
	// chained t.ConnectNodes(a,b).SetLength(x) is its own creation+length
	for _, call := range callsIn(fi.Decl.Body, false) {
		if fv, ok := c.settersOf(info, call); ok && fv == "length" {
			if sel, ok := unparen(call.Fun).(*ast.SelectorExpr); ok {
				if inner, ok := unparen(sel.X).(*ast.CallExpr); ok && isRepoFunc(calleeOf(info, inner), "tree", "Tree", "ConnectNodes") {
					c.lengthArg(info, name+"/ConnectNodes().SetLength", call, clause)
				}
			}
		}
	}
	seen := map[string]int{}
	for _, cr := range cs {
		seen[cr.obj.Name()]++
		key := fmt.Sprintf("%s/%s#%d", name, cr.obj.Name(), seen[cr.obj.Name()])
		var set *ast.CallExpr
		for _, s := range cr.blk {
			if s.Pos() < cr.pos {
				continue
			}
			for _, call := range callsIn(s, false) {
				if fv, ok := c.settersOf(info, call); ok && fv == "length" {
					if sel, ok := unparen(call.Fun).(*ast.SelectorExpr); ok && identObj(info, sel.X) == cr.obj && set == nil {
						// unconditional in that block
						if conds, okc := c.pathConds(info, &ast.BlockStmt{List: cr.blk, Lbrace: cr.blk[0].Pos(), Rbrace: cr.blk[len(cr.blk)-1].End()}, call, false); okc && len(conds) == 0 {
							set = call
						}
					}
				}
			}
		}
		if set == nil {
			// `for _, x := range []*Edge{e, newedge, newedge2} { x.SetLength(...) }` in the same block
			for _, st := range cr.blk {
				rs, ok := st.(*ast.RangeStmt)
				if !ok || st.Pos() < cr.pos || rs.Value == nil {
					continue
				}
				lit, ok := unparen(rs.X).(*ast.CompositeLit)
				if !ok {
					continue
				}
				has := false
				for _, el := range lit.Elts {
					if identObj(info, el) == cr.obj {
						has = true
					}
				}
				if !has {
					continue
				}
				for _, call := range callsIn(rs.Body, false) {
					if fv, ok := c.settersOf(info, call); ok && fv == "length" {
						if sel, ok := unparen(call.Fun).(*ast.SelectorExpr); ok && identObj(info, sel.X) == identObj(info, rs.Value) && set == nil {
							if conds, okc := c.pathConds(info, rs.Body, call, true); okc && len(conds) == 0 {
								set = call
							}
						}
					}
				}
			}
			if set != nil {
				c.lengthArg(info, key, set, clause)
				continue
			}
			// handed to an unexported helper that sets the length of the branches it is given
			for _, s := range cr.blk {
				if s.Pos() < cr.pos {
					continue
				}
				for _, call := range callsIn(s, false) {
					g := calleeOf(info, call)
					if g == nil || g.Exported() || g.Pkg() != fi.Obj.Pkg() || set != nil {
						continue
					}
					passed := false
					for _, a := range call.Args {
						if identObj(info, a) == cr.obj {
							passed = true
						}
					}
					if !passed {
						continue
					}
					gi := c.FuncOfObj(g)
					if gi == nil || gi.Decl.Body == nil {
						continue
					}
					ginfo := gi.Pkg.TypesInfo
					// the helper's SetLength calls on an Edge parameter or on the elements of a variadic one
					for _, c2 := range callsIn(gi.Decl.Body, false) {
						if fv, ok := c.settersOf(ginfo, c2); ok && fv == "length" {
							if conds, okc := c.pathConds(info, &ast.BlockStmt{List: cr.blk, Lbrace: cr.blk[0].Pos(), Rbrace: cr.blk[len(cr.blk)-1].End()}, call, false); okc && len(conds) == 0 {
								if gc, okg := c.pathConds(ginfo, gi.Decl.Body, c2, true); okg && len(gc) == 0 {
									c.lengthArg(ginfo, key, c2, clause)
									set = c2
								}
							}
						}
					}
				}
			}
			if set != nil {
				continue
			}
			c.Violation("LENGTH", key, cr.pos, "the "+cr.what+" ("+cr.obj.Name()+") never receives a length in the block that creates it: it keeps the 'absent' sentinel -1 (a negative length) or, for the split branch, its old full length").Clause = clause
			continue
		}
		c.lengthArg(info, key, set, clause)
	}
}

func (c *Ctx) settersOf(info *types.Info, call *ast.CallExpr) (string, bool) {
	c.indexAccessors()
	if fn := calleeOf(info, call); fn != nil {
		if fv, ok := c.setters[fn]; ok && len(call.Args) == 1 {
			return fv.Name(), true
		}
	}
	return "", false
}

func (c *Ctx) lengthArg(info *types.Info, key string, set *ast.CallExpr, clause string) {
	arg := unparen(set.Args[0])
	if tv, ok := info.Types[arg]; ok && tv.Value != nil {
		if id, isId := arg.(*ast.Ident); isId && id.Name == "NIL_LENGTH" {
			c.Trivial("LENGTH", key, set.Pos(), "topology-only tree: length explicitly absent")
			return
		}
		c.Check(constant.Sign(tv.Value) >= 0, "LENGTH", key, set.Pos(), "non-negative constant length", "branch gets the negative constant length "+tv.Value.String()).Clause = clause
		return
	}
	if call, ok := arg.(*ast.CallExpr); ok {
		if fn := calleeOf(info, call); fn != nil && fn.Pkg() != nil && strings.HasSuffix(fn.Pkg().Path(), "/gostats") && fn.Name() == "Exp" {
			c.OK("LENGTH", key, set.Pos(), "exponential draw (non-negative)")
			return
		}
	}
	// a length copied from another tree's branch (StarTreeFromTree) is outside the random generators
	c.Undecided("LENGTH", key, set.Pos(), "length "+c.src(arg)+" is neither an exponential draw nor a constant: cannot tell that it is non-negative")
}

// useBefore (notes): results of GraftTipOnEdge are used before its error is tested.
func (c *Ctx) useBefore(fi *FuncInfo) {
	info := fi.Pkg.TypesInfo
	walkStack(fi.Decl.Body, func(n ast.Node, stack []ast.Node) bool {
		as, ok := n.(*ast.AssignStmt)
		if !ok || len(as.Rhs) != 1 || len(as.Lhs) != 4 {
			return true
		}
		call, ok := unparen(as.Rhs[0]).(*ast.CallExpr)
		if !ok || !isRepoFunc(calleeOf(info, call), "tree", "Tree", "GraftTipOnEdge") {
			return true
		}
		errObj := identObj(info, as.Lhs[3])
		var blk []ast.Stmt
		for i := len(stack) - 1; i >= 0 && blk == nil; i-- {
			switch b := stack[i].(type) {
			case *ast.BlockStmt:
				blk = b.List
			case *ast.CaseClause:
				blk = b.Body
			}
		}
		used := false
		for _, s := range blk {
			if s.Pos() <= as.Pos() {
				continue
			}
			if is, ok := s.(*ast.IfStmt); ok && mentions(info, is.Cond, errObj) {
				break
			}
			for i := 0; i < 3; i++ {
				if o := identObj(info, as.Lhs[i]); o != nil && mentions(info, s, o) {
					used = true
				}
			}
		}
		if used {
			c.Note("USEBEFORE", funcName(fi.Obj)+"/GraftTipOnEdge", as.Pos(), "results of GraftTipOnEdge are used before its error is tested (they are nil when it fails); the error cannot occur on the branches the generator itself created")
		}
		return true
	})
}

func (c *Ctx) starSkeleton() {
	fi := c.Func("tree", "", "StarTree")
	if fi == nil {
		return
	}
	info := fi.Pkg.TypesInfo
	var root types.Object
	for _, call := range callsIn(fi.Decl.Body, false) {
		if isRepoFunc(calleeOf(info, call), "tree", "Tree", "SetRoot") && len(call.Args) == 1 {
			root = identObj(info, call.Args[0])
		}
	}
	ok, n := root != nil, 0
	for _, call := range callsIn(fi.Decl.Body, false) {
		if isRepoFunc(calleeOf(info, call), "tree", "Tree", "ConnectNodes") && len(call.Args) == 2 {
			n++
			if identObj(info, call.Args[0]) != root {
				ok = false
			}
		}
	}
	c.Check(ok && n > 0, "SHAPE", "tree.StarTree/single-inner-node", fi.Decl.Pos(), "every branch hangs from the root", "a star branch does not hang from the root node: more than one inner node").Clause = "the star generator a single inner node"
}

func (c *Ctx) balancedSkeleton() {
	fi := c.Func("tree", "", "randomBalancedBinaryTreeRecur")
	if fi == nil {
		return
	}
	info := fi.Pkg.TypesInfo
	node := paramObj(info, fi.Decl, 1)
	cur, target := paramObj(info, fi.Decl, 2), paramObj(info, fi.Decl, 3)
	clause := "caterpillar and balanced generators have exactly that shape"
	var children []types.Object
	for _, call := range callsIn(fi.Decl.Body, false) {
		if isRepoFunc(calleeOf(info, call), "tree", "Tree", "ConnectNodes") && len(call.Args) == 2 && identObj(info, call.Args[0]) == node {
			children = append(children, identObj(info, call.Args[1]))
		}
	}
	c.Check(len(children) == 2 && children[0] != children[1] && children[0] != nil, "SHAPE", "tree.randomBalancedBinaryTreeRecur/two-children", fi.Decl.Pos(), "two distinct children per node", fmt.Sprintf("expected two distinct children attached to the current node, found %d", len(children))).Clause = clause
	if len(children) != 2 {
		return
	}
	rec := map[types.Object]bool{}
	okGuard := true
	for _, call := range callsIn(fi.Decl.Body, false) {
		if calleeOf(info, call) != fi.Obj || len(call.Args) != 5 {
			continue
		}
		rec[identObj(info, call.Args[1])] = true
		// depth argument = cur+1, guard cur < target
		env := c.newLFEnv(info, fi.Decl.Body)
		p, err := env.fold(call.Args[2])
		if err != nil || !p.equal(pAtom(cur.Name()).add(pInt(1))) {
			okGuard = false
		}
		conds, okc := c.pathConds(info, fi.Decl.Body, call, false)
		code := c.condsToBexpr(info, conds, nil)
		eq, _, _, err := gfEquiv(code, bCmp(cur.Name(), token.LSS, target.Name()))
		if !okc || err != nil || !eq {
			okGuard = false
		}
	}
	c.Check(rec[children[0]] && rec[children[1]] && okGuard, "SHAPE", "tree.randomBalancedBinaryTreeRecur/recursion", fi.Decl.Pos(), "recurses on both children at depth+1 while depth < target", "the balanced recursion does not descend into both children at depth+1 exactly while depth < target: the tree is not balanced / has the wrong depth").Clause = clause
}

func (c *Ctx) caterpillarSkeleton() {
	fi := c.Func("tree", "", "RandomCaterpillarBinaryTree")
	if fi == nil {
		return
	}
	info := fi.Pkg.TypesInfo
	clause := "caterpillar and balanced generators have exactly that shape"
	o := c.localExpansions(info, fi.Decl.Body)
	var graft *ast.CallExpr
	for _, call := range callsIn(fi.Decl.Body, false) {
		if isRepoFunc(calleeOf(info, call), "tree", "Tree", "GraftTipOnEdge") {
			graft = call
		}
	}
	if graft == nil || len(graft.Args) != 2 {
		c.Violation("SHAPE", "tree.RandomCaterpillarBinaryTree/graft-on-last", fi.Decl.Pos(), "no GraftTipOnEdge call").Clause = clause
		return
	}
	edgeKey := c.canon(info, graft.Args[1], o)
	// edge = <last>.br[0]; and <last> = n (the grafted node) at the end of every iteration
	m := regexp.MustCompile(`^(\w+)\.br\[0\]$`).FindStringSubmatch(edgeKey)
	good := false
	if m != nil {
		newNode := identObj(info, graft.Args[0])
		var loop *ast.ForStmt
		for _, s := range stackTo(fi.Decl.Body, graft) {
			if f, ok := s.(*ast.ForStmt); ok {
				loop = f
			}
		}
		if loop != nil {
			for _, s := range loop.Body.List {
				if as, ok := s.(*ast.AssignStmt); ok && len(as.Lhs) == 1 && len(as.Rhs) == 1 && as.Tok == token.ASSIGN {
					if l := identObj(info, as.Lhs[0]); l != nil && l.Name() == m[1] && identObj(info, as.Rhs[0]) == newNode {
						good = true
					}
				}
			}
		}
	}
	c.Check(good, "SHAPE", "tree.RandomCaterpillarBinaryTree/graft-on-last", graft.Pos(), "each new tip is grafted on the branch of the previously added tip", "the caterpillar does not graft each new tip on the branch of the tip added just before (graft on "+edgeKey+"): the shape is not a caterpillar").Clause = clause
}

// errCondOfCall: call is g(args) with g an unexported function of the repository whose only result is
// an error. Returns the condition under which g returns a non-nil error, as a formula over the
// canonical texts of the arguments (nil when g is not of that shape).
func (c *Ctx) errCondOfCall(info *types.Info, call *ast.CallExpr, o *canonOpts) *bexpr {
	g := calleeOf(info, call)
	if g == nil || g.Exported() || !inRepo(g) {
		return nil
	}
	sig := g.Type().(*types.Signature)
	if sig.Results().Len() != 1 || !isErrorType(sig.Results().At(0).Type()) || sig.Variadic() || sig.Params().Len() != len(call.Args) {
		return nil
	}
	gi := c.FuncOfObj(g)
	if gi == nil || gi.Decl.Body == nil {
		return nil
	}
	ginfo := gi.Pkg.TypesInfo
	o2 := &canonOpts{subst: map[types.Object]string{}, merged: true}
	for i := range call.Args {
		if p := paramObj(ginfo, gi.Decl, i); p != nil {
			o2.subst[p] = c.canon(info, call.Args[i], o)
		}
	}
	var alts []*bexpr
	ok := true
	ast.Inspect(gi.Decl.Body, func(m ast.Node) bool {
		if _, isLit := m.(*ast.FuncLit); isLit {
			return false
		}
		ret, isRet := m.(*ast.ReturnStmt)
		if !isRet {
			return true
		}
		if len(ret.Results) != 1 {
			ok = false
			return true
		}
		if isNilIdent(ginfo, ret.Results[0]) {
			return true
		}
		conds, okc := c.pathConds(ginfo, gi.Decl.Body, ret, false)
		if !okc {
			ok = false
			return true
		}
		alts = append(alts, c.condsToBexpr(ginfo, conds, o2))
		return true
	})
	if !ok || len(alts) == 0 {
		return nil
	}
	return bOr(alts...)
}
