#!/usr/bin/env python3
"""Reference counts must not be refactoring-sensitive.

  refcounts_min.py collect <dir with per-variant count files> <sweep.log>
      -> tools/benign_min_counts.json : slot by slot, the minimum obligation count seen over the
         behaviour-preserving refactorings kept under /verif/benign (variants on which a check fires
         for another reason than REFCOUNT are left out)
  refcounts_min.py apply
      -> lowers checker/reference_counts.json to min(reference tree, benign minimum); slots that
         reach 0 are dropped.  (A slot unknown to benign_min_counts.json - a rule added later - keeps
         the count of the reference tree until the next collect.)
The per-variant files come from `MS_BASELINE_DIR=<dir> tools/mutsweep.sh /verif/benign`."""
import json, os, re, sys
MIN = '/verif/tools/benign_min_counts.json'
REF = '/verif/checker/reference_counts.json'
if sys.argv[1] == 'collect':
    d, sweep = sys.argv[2:4]
    noisy = set()
    for l in open(sweep):
        m = re.match(r'^(?:benign-)?(\S+):\s*(.*)$', l)
        if not m or m.group(2).strip() == 'MISSED':
            continue
        keys = re.findall(r'\[([^\]]+)\]', m.group(2))
        if any(not k.startswith('REFCOUNT/') for k in keys):
            noisy.add(m.group(1))
    mins, used = {}, 0
    for f in sorted(os.listdir(d)):
        name = re.sub(r'^(benign-|ref\d-)', '', f[:-5])
        if name in noisy and f.startswith('benign-'):
            continue
        v = json.load(open(os.path.join(d, f)))
        used += 1
        for prop, slots in v.items():
            mp = mins.setdefault(prop, {})
            for s, n in slots.items():
                mp[s] = min(mp.get(s, n), n)
        # a slot absent from this variant has count 0 there
        for prop, mp in mins.items():
            cur = v.get(prop, {})
            for s in mp:
                if s not in cur:
                    mp[s] = 0
    json.dump(mins, open(MIN, 'w'), indent=1, sort_keys=True)
    print('variants used:', used, 'left out:', sorted(noisy))
elif sys.argv[1] == 'apply':
    ref = json.load(open(REF))
    mins = json.load(open(MIN)) if os.path.exists(MIN) else {}
    low = 0
    for prop, slots in ref.items():
        mp = mins.get(prop, {})
        for s in list(slots):
            if s in mp and mp[s] < slots[s]:
                slots[s] = mp[s]
                low += 1
    out = {p: {s: n for s, n in slots.items() if n > 0} for p, slots in ref.items()}
    json.dump(out, open(REF, 'w'), indent=1, sort_keys=True)
    print('slots lowered:', low, 'slots kept:', sum(len(v) for v in out.values()))
