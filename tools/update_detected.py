#!/usr/bin/env python3
"""Refreshes detected_by_quick_checks / detected in seeded/*/meta.json from mutsweep logs.
usage: update_detected.py <sweep.log>..."""
import json, re, sys, os
det = {}
for f in sys.argv[1:]:
    for l in open(f):
        m = re.match(r'^(C\d+-\w+):\s*(.*)$', l)
        if m:
            det[m.group(1)] = m.group(2).strip()
n = 0
for name, d0 in sorted(det.items()):
    p = '/verif/seeded/%s/meta.json' % name
    if not os.path.exists(p):
        continue
    m = json.load(open(p))
    m['detected_by_quick_checks'] = d0 if d0 and d0 != 'MISSED' else None
    m['detected'] = bool(d0) and d0 != 'MISSED'
    json.dump(m, open(p, 'w'), indent=1)
    n += 1
print('updated', n)
