#!/bin/bash
# usage: tools/confirm_mut.sh <dir with patch.diff demo_test.go notes.md> <name>
# Confirms a seeded change in a scratch worktree of /repo HEAD: applies, builds, existing suite passes,
# demonstration fails with the change and passes without. Prints one summary line; removes the worktree.
set -u
src="$1"; name="$2"
export GOFLAGS=-mod=mod GOPROXY=off GOSUMDB=off GOTOOLCHAIN=local
wt=/tmp/conf/$name
rm -rf $wt; mkdir -p /tmp/conf
git -C /repo worktree add --detach $wt HEAD >/dev/null 2>&1 || { echo "$name: worktree failed"; exit 1; }
cleanup() { git -C /repo worktree remove --force $wt >/dev/null 2>&1; rm -rf $wt; }
cd $wt
if ! patch -p1 -s -f < $src/patch.diff >/dev/null 2>&1; then echo "$name: PATCH-FAILS-ON-HEAD"; cleanup; exit 0; fi
if ! go build ./... >/dev/null 2>&1; then echo "$name: BUILD-FAILS"; cleanup; exit 0; fi
suite=fail
for i in 1 2 3; do
  out=$(go test -vet=off -count=1 ./... 2>&1)
  if ! echo "$out" | grep -q '^FAIL\|^--- FAIL\|panic:'; then suite=pass; break; fi
  # only the flaky test may fail
  if echo "$out" | grep '^--- FAIL' | grep -vq 'TestEdgeNeighbor'; then break; fi
done
race=""
grep -qi -- '-race' $src/notes.md 2>/dev/null && race="-race"
pkgline=$(grep -m1 '^package ' $src/demo_test.go)
cp $src/demo_test.go tests/zz_demo_${name}_test.go
[ -f $src/bad_stream.nw ] && cp $src/bad_stream.nw tests/
runre='TestDemo'
with=$(timeout 600 go test $race -vet=off -count=1 -run "$runre" ./tests/ 2>&1); rcw=$?
git checkout -q -- . 
without=$(timeout 600 go test $race -vet=off -count=1 -run "$runre" ./tests/ 2>&1); rcn=$?
echo "$name: suite=$suite demo_with_change_rc=$rcw demo_without_rc=$rcn race=${race:-no} pkg='$pkgline'"
if [ $rcw -eq 0 ] || [ $rcn -ne 0 ]; then echo "$with" | tail -5 | sed 's/^/   W| /'; echo "$without" | tail -5 | sed 's/^/   N| /'; fi
cleanup
