#!/usr/bin/env python3
"""usage: addprop.py <id> <level> <<< JSON{"text":..,"note":..,"technique":..}  — updates tools/manifest_table.json and regenerates MANIFEST.json"""
import json, sys, os, subprocess
here = os.path.dirname(os.path.abspath(__file__))
p = os.path.join(here, "manifest_table.json")
t = json.load(open(p))
d = json.load(sys.stdin)
d["claimed"] = True
d["level"] = sys.argv[2]
t[sys.argv[1]] = d
json.dump(t, open(p, "w"), indent=1)
subprocess.check_call([sys.executable, os.path.join(here, "mkmanifest.py")])
