#!/usr/bin/env python3
"""Refreshes quick_checks_all_properties in benign/*/meta.json from mutsweep logs run over /verif/benign
(lines `benign-Cxx-rN: ...` or `Cxx-rN: ...`).  usage: update_benign.py <sweep.log>..."""
import json, re, sys, os
res = {}
for f in sys.argv[1:]:
    for l in open(f):
        m = re.match(r'^(?:benign-)?(C\d+-r\d+):\s*(.*)$', l)
        if m:
            res[m.group(1)] = m.group(2).strip()
n = 0
for name, d0 in sorted(res.items()):
    p = '/verif/benign/%s/meta.json' % name
    if not os.path.exists(p):
        continue
    m = json.load(open(p))
    m['quick_checks_all_properties'] = 'silent' if d0 == 'MISSED' else d0
    json.dump(m, open(p, 'w'), indent=1)
    n += 1
print('updated', n, 'firing', sum(1 for v in res.values() if v != 'MISSED'))
