#!/bin/bash
# usage: tools/one.sh <dir containing patch.diff> <prop> [grep-pattern]
# Applies the patch to a scratch copy of /repo and prints the non-ok obligations of <prop> (verbose).
set -u
src="$1"; prop="$2"; pat="${3:-.}"
export GOFLAGS=-mod=mod GOPROXY=off GOSUMDB=off GOTOOLCHAIN=local GOWORK=off
d=/tmp/one.$$; rm -rf $d; mkdir -p $d/verif/evidence
rsync -a --exclude .git /repo/ $d/repo/
cp /verif/known_findings.json $d/verif/; ln -s /verif/checker $d/verif/checker
(cd $d/repo && patch -p1 -s -f < "$src/patch.diff") || { echo PATCH-FAILS; rm -rf $d; exit 1; }
GTVERIF_VERBOSE=1 GTVERIF_REPO=$d/repo GTVERIF_VERIF=$d/verif /verif/bin/gtverif check -prop $prop -tier quick 2>&1 | grep -v "^NOTE\|${ONE_SHOW_OK:- ok: }" | grep "$pat" | cut -c1-700
rm -rf $d
