#!/bin/bash
# Regenerates checker/reference_counts.json from the CURRENT /repo tree (development tool; run only
# after a rule was added or the reference tree repaired, then rebuild). Never run by a check.
set -eu
export GOFLAGS=-mod=mod GOPROXY=off GOSUMDB=off GOTOOLCHAIN=local GOWORK=off
cd /verif/checker && go build -o /tmp/gt_refcounts . 
GTVERIF_WRITE_BASELINE=/verif/checker/reference_counts.json /tmp/gt_refcounts sweep | grep ' rc=' | grep -v 'rc=0' && { echo "a check fails on the reference tree: not a reference"; exit 1; }
python3 /verif/tools/refcounts_min.py apply
go build -o /verif/bin/gtverif . && rm -f /tmp/gt_refcounts
echo "reference_counts.json regenerated: $(python3 -c "import json;d=json.load(open('/verif/checker/reference_counts.json'));print(sum(len(v) for v in d.values()),'slots')")"
