#!/usr/bin/env python3
"""Copies confirmed behaviour-preserving refactorings into /verif/benign/<name>/ with meta.json.
usage: save_benign.py <srcroot> <confirm.log> <sweep.log> [offset]
<srcroot>/Cnn/rK/{patch.diff,notes.md}; saved as /verif/benign/Cnn-r(K+offset)."""
import json, os, re, shutil, sys, subprocess
src, conf, sweep = sys.argv[1:4]
off = int(sys.argv[4]) if len(sys.argv) > 4 else 0
ok = {}
for l in open(conf):
    m = re.match(r'^(C\d+-r\d+): suite=(\w+)', l)
    if m:
        ok[m.group(1)] = m.group(2)
det = {}
for l in open(sweep):
    m = re.match(r'^(C\d+-r\d+):\s*(.*)$', l)
    if m:
        det[m.group(1)] = m.group(2).strip()
head = subprocess.check_output(['git', '-C', '/repo', 'rev-parse', '--short', 'HEAD']).decode().strip()
n = 0
for name, suite in sorted(ok.items()):
    if suite != 'pass':
        print('skip (suite does not pass):', name); continue
    prop, var = name.split('-')
    d = os.path.join(src, prop, var)
    k = int(var[1:]) + off
    outname = '%s-r%d' % (prop, k)
    out = os.path.join('/verif/benign', outname)
    os.makedirs(out, exist_ok=True)
    for f in ('patch.diff', 'notes.md'):
        if os.path.exists(os.path.join(d, f)):
            shutil.copy(os.path.join(d, f), os.path.join(out, f))
    notes = open(os.path.join(out, 'notes.md')).read() if os.path.exists(os.path.join(out, 'notes.md')) else ''
    title = notes.strip().split('\n')[0].lstrip('# ').strip()
    files = sorted(set(re.findall(r'^\+\+\+ b/(\S+)', open(os.path.join(d, 'patch.diff')).read(), re.M)))
    d0 = det.get(name, '')
    meta = {
        'property': prop, 'name': outname, 'summary': title, 'files_changed': files,
        'origin': 'behaviour-preserving refactoring written by an independent sub-agent that saw only the text of the property and its own scratch worktree of /repo (nothing from /verif)',
        'confirmed_by': {'repo_commit': head, 'ran': ['tools/confirm_benign.sh: scratch worktree of /repo HEAD; patch -p1; go build ./...; go test -vet=off -count=1 ./... (flaky TestEdgeNeighbor retried)'], 'suite_with_change': 'pass'},
        'quick_checks_all_properties': 'silent' if d0 == 'MISSED' else d0,
    }
    json.dump(meta, open(os.path.join(out, 'meta.json'), 'w'), indent=1)
    n += 1
print('saved', n, 'total', len(os.listdir('/verif/benign')))
