#!/bin/bash
# usage: tools/mutsweep.sh <dir-with-*/patch.diff or */*/patch.diff> [props...]
# For every patch: scratch copy of /repo (under /tmp/ms), apply, run the quick checks against the copy
# (GTVERIF_REPO; `gtverif sweep` = all properties on one load), report which properties' checks fire.
# /repo itself is never touched.  Env: MS_P (parallelism, default 6), GTVERIF_BIN, GTVERIF_CHECKER
# (frozen copies of the binary / checker directory so that development can go on during a sweep).
set -u
root="$1"; shift
props="$*"
BIN=${GTVERIF_BIN:-/verif/bin/gtverif}
[ -z "$props" ] && props=$($BIN list | grep '^C' | tr '\n' ' ')
export GOFLAGS=-mod=mod GOPROXY=off GOSUMDB=off GOTOOLCHAIN=local GOWORK=off
one() {
  patch="$1"; props="$2"
  BIN=${GTVERIF_BIN:-/verif/bin/gtverif}
  name=$(echo "$patch" | sed 's#/patch.diff##; s#.*/\([^/]*/[^/]*\)$#\1#; s#/#-#g')
  d=/tmp/ms/$name; rm -rf $d; mkdir -p $d/verif/evidence
  rsync -a --exclude .git /repo/ $d/repo/
  cp /verif/known_findings.json $d/verif/
  ln -s ${GTVERIF_CHECKER:-/verif/checker} $d/verif/checker
  if ! (cd $d/repo && patch -p1 -s -f < "$patch" >/dev/null 2>$d/err); then echo "$name: PATCH-FAILS $(head -2 $d/err | tr '\n' ' ')"; rm -rf $d; return; fi
  fired=""
  plist=$(echo $props | tr ' ' ',')
  # MS_BASELINE_DIR: also record the per-slot obligation counts of this variant (tools/refcounts_min.py)
  if [ -n "${MS_BASELINE_DIR:-}" ]; then mkdir -p $MS_BASELINE_DIR; export GTVERIF_WRITE_BASELINE=$MS_BASELINE_DIR/$name.json; fi
  all=$(GTVERIF_REPO=$d/repo GTVERIF_VERIF=$d/verif $BIN sweep -props "$plist" 2>&1)
  for p in $props; do
    rc=$(echo "$all" | grep "^== $p rc=" | sed 's/.*rc=//')
    if [ "${rc:-2}" != "0" ]; then
      out=$(echo "$all" | sed -n "/^== $p begin/,/^== $p rc=/p")
      keys=$(echo "$out" | grep -v '^NOTE' | grep -o '^[^ ]*: \[[^]]*\]\( undecided:\)\?' | sed 's/^[^ ]*: //; s/\] undecided:/]?/' | head -4 | tr '\n' ' ')
      nv=$(echo "$out" | grep -v '^NOTE' | grep '^[^ ]*: \[' | grep -vc 'undecided:')
      nu=$(echo "$out" | grep -v '^NOTE' | grep '^[^ ]*: \[' | grep -c 'undecided:')
      fired="$fired $p(v=$nv,u=$nu){$keys}"
    fi
  done
  echo "$name:${fired:- MISSED}"
  rm -rf $d
}
export -f one
mkdir -p /tmp/ms
find "$root" -name patch.diff | sort | xargs -P ${MS_P:-6} -I{} bash -c 'one "$@"' _ {} "$props"
