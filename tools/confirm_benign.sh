#!/bin/bash
# usage: tools/confirm_benign.sh <dir with patch.diff notes.md> <name>
# Confirms a behaviour-preserving refactoring in a scratch worktree of /repo HEAD: applies, builds,
# go vet-free suite passes (flaky TestEdgeNeighbor retried). Prints one summary line; removes the worktree.
set -u
src="$1"; name="$2"
export GOFLAGS=-mod=mod GOPROXY=off GOSUMDB=off GOTOOLCHAIN=local GOWORK=off
wt=/tmp/confb/$name
rm -rf $wt; mkdir -p /tmp/confb
git -C /repo worktree add --detach $wt HEAD >/dev/null 2>&1 || { echo "$name: worktree failed"; exit 1; }
cleanup() { git -C /repo worktree remove --force $wt >/dev/null 2>&1; rm -rf $wt; }
cd $wt
if ! patch -p1 -s -f < $src/patch.diff >/dev/null 2>&1; then echo "$name: PATCH-FAILS-ON-HEAD"; cleanup; exit 0; fi
if ! go build ./... >/dev/null 2>&1; then echo "$name: BUILD-FAILS"; cleanup; exit 0; fi
suite=fail
for i in 1 2 3; do
  out=$(go test -vet=off -count=1 ./... 2>&1)
  if ! echo "$out" | grep -q '^FAIL\|^--- FAIL\|panic:'; then suite=pass; break; fi
  if echo "$out" | grep '^--- FAIL' | grep -vq 'TestEdgeNeighbor'; then break; fi
done
echo "$name: suite=$suite"
cleanup
