#!/usr/bin/env python3
"""Regenerates the seeded-changes table in DESIGN.md from seeded/*/meta.json."""
import json, glob, os, re
rows = []
for m in sorted(glob.glob('/verif/seeded/*/meta.json')):
    d = json.load(open(m))
    det = d.get('detected_by_quick_checks') or ''
    rules = sorted(set(re.findall(r'(C\d+)(?:\([^)]*\))?\{\[([A-Z0-9-]+)/', det)))
    by = ', '.join('%s %s' % (p, r) for p, r in rules) if rules else '**missed**'
    summ = d['summary']
    summ = re.sub(r'^C\d+\s*/\s*\w+\s*[—-]+\s*', '', summ)
    if re.match(r'^C\d+ / round \d+ / change \w+$', summ.strip()) or len(summ.strip()) < 12:
        nf = os.path.join(os.path.dirname(m), 'notes.md')
        if os.path.exists(nf):
            body = ' '.join(l.strip() for l in open(nf).read().strip().split('\n')[1:] if l.strip())
            body = re.sub(r'\*\*|`', '', body)
            summ = body
    rows.append('| %s | %s | %s | %s |' % (d['name'], summ[:110].replace('|', '/'), ', '.join(os.path.basename(f) for f in d['files_changed']), by))
n = len(rows); hit = sum(1 for r in rows if '**missed**' not in r)
tab = '| change | what it does | file | caught by (quick checks) |\n|---|---|---|---|\n' + '\n'.join(rows) + '\n\n%d of %d seeded changes are caught; no quick check of an unrelated property fires on any of them.\n' % (hit, n)
p = '/verif/DESIGN.md'
s = open(p).read()
s = re.sub(r'(<!-- SEEDED-TABLE-BEGIN -->\n).*?(<!-- SEEDED-TABLE-END -->)', lambda m: m.group(1) + tab + m.group(2), s, flags=re.S)
open(p, 'w').write(s)
print('%d/%d' % (hit, n))
