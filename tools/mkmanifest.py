#!/usr/bin/env python3
"""Generates /verif/MANIFEST.json from tools/manifest_table.json (one record per property)."""
import json, os
here = os.path.dirname(os.path.abspath(__file__))
root = os.path.dirname(here)
table = json.load(open(os.path.join(here, "manifest_table.json")))
props = [json.loads(l) for l in open(os.path.join(root, "properties.jsonl")) if l.strip()]
ids = [p["id"] for p in props]
checks, na = [], []
for pid in ids:
    t = table.get(pid)
    if t is None or not t.get("claimed", False):
        na.append({"property_id": pid, "reason": (t or {}).get("reason", "no check built yet for this property (work in progress); nothing is claimed")})
        continue
    checks.append({
        "property_id": pid,
        "quick_cmd": "./check.sh %s quick" % pid,
        "thorough_cmd": "./check.sh %s thorough" % pid,
        "evidence_file": "/verif/evidence/%s.json" % pid,
        "replay_cmd_template": "bin/gtverif replay {path}",
        "engine": "gtverif",
        "level_claimed": {"category": t.get("level", "other"), "text": t["text"], "design_ref": t.get("design_ref", "DESIGN.md §4 " + pid)},
        "level_note": t["note"],
        "technique": t["technique"],
    })
m = {
    "version": 1,
    "setup_cmd": "cd /verif/checker && GOFLAGS=-mod=mod GOPROXY=off GOSUMDB=off GOTOOLCHAIN=local GOWORK=off go build -o /verif/bin/gtverif .",
    "hooks": {
        "guard": "verif",
        "enable": "no hooks: the checker reads /repo's source; nothing in gotree is instrumented (build tag verif is unused)",
        "baseline_off_cmd": "cd /repo && go test -mod=mod -json -vet=off -count=1 -timeout 25m ./...",
        "source_commits": [],
        "add_only": True,
    },
    "engines": [{
        "name": "gtverif",
        "path": "/verif/checker",
        "serves_properties": [c["property_id"] for c in checks],
        "kind_free_text": "repository-specific static analyser (Go; go/packages + go/types + go/ssa + go/cfg from golang.org/x/tools v0.29.0). Loads /repo/... from its working tree on every run, evaluates per-property rule instances, writes evidence/<id>.json; never executes gotree code",
    }],
    "checks": checks,
    "notes": "Every check decides named structural clauses (necessary conditions) of its property from source only; what is not decided is listed in each evidence file and in DESIGN.md §4. Genuine defects found are repaired by fix: commits in /repo and recorded in known_findings.json.",
    "not_applicable": na,
}
json.dump(m, open(os.path.join(root, "MANIFEST.json"), "w"), indent=1)
print("claimed:", [c["property_id"] for c in checks])
print("not_applicable:", [n["property_id"] for n in na])
