#!/bin/bash
# usage: tools/survivors.sh <prop> [budget]
# Development aid (not a registered check): runs the thorough tier of <prop> with every operator
# mutant dumped that NO rule fires on, then runs gotree's own test suite on each of them in a
# scratch copy of /repo.  Prints the mutants that survive both the rules and the tests: candidates
# for a new rule (or equivalent mutants); their mutated files are kept under /tmp/surv_keep/<prop>/.
# Scratch space under /tmp/surv is removed at the end.
set -u
prop="$1"; budget="${2:-400}"
export GOFLAGS=-mod=mod GOPROXY=off GOSUMDB=off GOTOOLCHAIN=local GOWORK=off
W=/tmp/surv/$prop; rm -rf $W; mkdir -p $W/verif/evidence $W/dump
cp /verif/known_findings.json $W/verif/
for d in checker seeded benign; do ln -s /verif/$d $W/verif/$d; done
GTVERIF_MUTANTS=$budget GTVERIF_DUMP_SURVIVORS=$W/dump GTVERIF_VERIF=$W/verif ${GTVERIF_BIN:-/verif/bin/gtverif} check -prop $prop -tier thorough > $W/thorough.log 2>&1
n=$(ls $W/dump | wc -l); echo "$prop: $n mutants survive the rules"
one() {
  d="$1"; W="$2"
  name=$(basename $d); s=$W/work/$name; mkdir -p $s
  rsync -a --exclude .git /repo/ $s/
  f=$(sed -n 2p $d/DESC); cp $d/$f $s/$f || { echo "$name COPY-FAILED"; return; }
  cd $s
  if ! go build ./... >/dev/null 2>&1; then echo "$name NOBUILD $(head -1 $d/DESC)"; cd /; rm -rf $s; return; fi
  res=pass
  for i in 1 2; do
    out=$(timeout 300 go test -vet=off -count=1 ./... 2>&1); rc=$?
    if [ $rc -eq 0 ]; then res=pass; break; fi
    res=fail
    if echo "$out" | grep '^--- FAIL' | grep -vq 'TestEdgeNeighbor'; then break; fi
    if ! echo "$out" | grep -q '^--- FAIL'; then break; fi
  done
  if [ $res = pass ]; then
    # the other nineteen checks see the variant too: only what no check reports is a gap
    mkdir -p $s.verif/evidence; cp /verif/known_findings.json $s.verif/; ln -s /verif/checker $s.verif/checker
    fired=$(GTVERIF_REPO=$s GTVERIF_VERIF=$s.verif ${GTVERIF_BIN:-/verif/bin/gtverif} sweep 2>&1 | grep '^== C.* rc=' | grep -v 'rc=0' | sed 's/== \(C[0-9]*\) rc=.*/\1/' | tr '\n' ' ')
    rm -rf $s.verif
    if [ -n "$fired" ]; then res="pass CAUGHT-BY $fired"; else res="pass SURVIVES-ALL"; mkdir -p /tmp/surv_keep/$(basename $W); cp -r $d /tmp/surv_keep/$(basename $W)/; fi
  fi
  echo "$name TESTS-$res $(head -1 $d/DESC)"
  cd /; rm -rf $s
}
export -f one
ls -d $W/dump/* 2>/dev/null | xargs -P ${SURV_P:-6} -I{} bash -c 'one "$@"' _ {} $W > $W/result.log 2>&1
grep -c TESTS-fail $W/result.log | sed 's/^/  killed by the tests: /'
grep -c "CAUGHT-BY" $W/result.log | sed 's/^/  pass the tests, caught by the check of another property: /'
echo "  survive the tests AND all twenty checks:"
grep SURVIVES-ALL $W/result.log | sort | sed 's/^/    /'
cp $W/result.log /tmp/surv_$prop.log
rm -rf $W
