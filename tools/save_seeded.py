#!/usr/bin/env python3
"""Copies confirmed seeded changes into /verif/seeded/<name>/ with meta.json.
usage: save_seeded.py <srcroot> <confirm.log> <sweep.log>"""
import json, os, re, shutil, sys, subprocess
src, conf, sweep = sys.argv[1:4]
confirmed = {}
for l in open(conf):
    m = re.match(r'^(C\d+-\w+): suite=(\w+) demo_with_change_rc=(\d+) demo_without_rc=(\d+) race=(\S+)', l)
    if m:
        confirmed[m.group(1)] = m.groups()[1:]
det = {}
for l in open(sweep):
    m = re.match(r'^(C\d+-\w+):\s*(.*)$', l)
    if m:
        det[m.group(1)] = m.group(2).strip()
head = subprocess.check_output(['git', '-C', '/repo', 'rev-parse', '--short', 'HEAD']).decode().strip()
for name, (suite, rcw, rcn, race) in sorted(confirmed.items()):
    if suite != 'pass' or rcw == '0' or rcn != '0':
        print('skip (not confirmed):', name); continue
    prop, var = name.split('-')
    d = os.path.join(src, prop, var)
    out = os.path.join('/verif/seeded', name)
    os.makedirs(out, exist_ok=True)
    for f in os.listdir(d):
        if os.path.isfile(os.path.join(d, f)):
            shutil.copy(os.path.join(d, f), os.path.join(out, f))
    notes = open(os.path.join(d, 'notes.md')).read() if os.path.exists(os.path.join(d, 'notes.md')) else ''
    title = notes.strip().split('\n')[0].lstrip('# ').strip()
    needs = ''
    m = re.search(r'(?is)(needs[^\n]*?:|manifest[^\n]*?:|what it needs[^\n]*?:|trigger[^\n]*?:)(.*?)(\n\s*\n|\Z)', notes)
    if m:
        needs = ' '.join((m.group(1) + m.group(2)).split())[:900]
    files = sorted(set(re.findall(r'^\+\+\+ b/(\S+)', open(os.path.join(d, 'patch.diff')).read(), re.M)))
    d0 = det.get(name, '')
    meta = {
        'property': prop,
        'name': name,
        'summary': title,
        'files_changed': files,
        'needs_to_manifest': needs,
        'origin': 'written by an independent sub-agent that saw only the text of the property and its own scratch worktree of /repo (nothing from /verif)',
        'confirmed_by': {
            'repo_commit': head,
            'ran': ['tools/confirm_mut.sh: scratch worktree of /repo HEAD; patch -p1 < patch.diff; go build ./...; go test -vet=off -count=1 ./... (flaky TestEdgeNeighbor retried); demo_test.go copied into tests/; go test %s-vet=off -count=1 -run TestDemo ./tests/ with the change, then after git checkout -- . without it' % ('-race ' if race == '-race' else '')],
            'suite_with_change': 'pass', 'demo_with_change': 'FAIL (rc=%s)' % rcw, 'demo_without_change': 'PASS',
        },
        'detected_by_quick_checks': d0 if d0 and d0 != 'MISSED' else None,
        'detected': bool(d0) and d0 != 'MISSED',
    }
    json.dump(meta, open(os.path.join(out, 'meta.json'), 'w'), indent=1)
print('saved', len(os.listdir('/verif/seeded')))
