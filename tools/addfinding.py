#!/usr/bin/env python3
"""usage: addfinding.py <property> <key> <status> <what>   (rule = first path element of key)"""
import json, sys
prop, key, status, what = sys.argv[1:5]
kf = json.load(open('/verif/known_findings.json'))
kf['findings'].append({"property": prop, "rule": key.split('/')[0], "key": key, "what": what, "status": status})
json.dump(kf, open('/verif/known_findings.json', 'w'), indent=1)
