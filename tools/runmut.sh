#!/bin/sh
# usage: tools/runmut.sh <patch.diff> [props...]   — applies the patch to /repo, runs the quick checks, undoes it.
# Prints one line per property: <prop> exit=<rc> and the VIOLATION/undecided lines. /repo must be clean.
set -u
patch="$1"; shift
cd /verif
if [ -n "$(git -C /repo status --porcelain)" ]; then echo "/repo not clean"; exit 2; fi
if ! git -C /repo apply "$patch" 2>/tmp/.apply.err; then
  if ! git -C /repo apply -3 "$patch" 2>>/tmp/.apply.err; then echo "patch does not apply:"; cat /tmp/.apply.err; git -C /repo checkout -- . ; git -C /repo reset -q; exit 3; fi
  git -C /repo reset -q
fi
props="$*"
[ -z "$props" ] && props=$(bin/gtverif list | grep '^C')
for p in $props; do
  out=$(bin/gtverif check -prop $p -tier quick 2>&1); rc=$?
  echo "== $p exit=$rc"
  [ $rc -ne 0 ] && echo "$out" | grep -v '^NOTE' | grep -B1 -A0 'VIOLATION\|ERROR' | grep -v '^--' | cut -c1-400
done
git -C /repo checkout -- .
git -C /repo status --porcelain | grep -v '^??' 
# evidence files were rewritten by the mutated runs: restore by re-running is the caller's job
exit 0
