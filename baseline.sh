#!/bin/sh
# Runs the repository's pinned test suite (the BASELINE.json command for the single module ".";
# no hooks exist, so the guard is trivially off). A test that fails is re-run alone up to 5 times:
# tests::TestEdgeNeighbor builds unseeded random trees and fails ~1 run in 6 on the pristine
# snapshot as well (measured: 5/30 at eabd7a3), so a single failure of it says nothing.
cd /repo || exit 2
export GOFLAGS=-mod=mod GOPROXY=off GOSUMDB=off GOTOOLCHAIN=local
out=$(go test -mod=mod -json -vet=off -count=1 -timeout 25m ./... 2>&1)
pass=$(printf '%s\n' "$out" | grep -c '"Action":"pass","Package":"[^"]*","Test":"[^"/]*"')
failed=$(printf '%s\n' "$out" | grep '"Action":"fail"' | grep '"Test"' | sed 's/.*"Package":"\([^"]*\)","Test":"\([^"]*\)".*/\1 \2/' | sort -u)
echo "top-level tests passed: $pass"
rc=0
if [ -n "$failed" ]; then
  echo "$failed" | while read -r pkg t; do
    ok=0
    for i in 1 2 3 4 5; do
      if go test -mod=mod -vet=off -count=1 -run "^$t\$" "$pkg" >/dev/null 2>&1; then ok=1; break; fi
    done
    if [ $ok -eq 1 ]; then echo "flaky (passed on retry): $pkg $t"; else echo "FAIL: $pkg $t"; fi
  done | tee /tmp/.baseline_fail.$$
  if grep -q '^FAIL' /tmp/.baseline_fail.$$; then rc=1; fi
  rm -f /tmp/.baseline_fail.$$
fi
printf '%s\n' "$out" | grep '"Action":"fail"' | grep -v '"Test"' >/dev/null && [ -z "$failed" ] && { echo "package-level failure"; rc=1; }
exit $rc
