#!/bin/sh
# Runs the repository's pinned test suite (BASELINE.json cmd, single module ".") with the hook
# guard off (no hooks exist). Prints a PASS/FAIL summary; exit 0 iff no test failed.
cd /repo || exit 2
export GOFLAGS=-mod=mod GOPROXY=off GOSUMDB=off GOTOOLCHAIN=local
out=$(go test -mod=mod -json -vet=off -count=1 -timeout 25m ./... 2>&1)
pass=$(printf '%s\n' "$out" | grep -c '"Action":"pass","Package":"[^"]*","Test":"[^"/]*"')
fail=$(printf '%s\n' "$out" | grep -c '"Action":"fail"')
echo "top-level tests passed: $pass ; fail events: $fail"
[ "$fail" -eq 0 ] && [ "$pass" -ge 84 ]
